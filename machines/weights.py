"""C09 - weights, weighted and unweighted control points stay mutually consistent.

World: one rational curve/surface/volume whose three views (ctrlpts / weights / ctrlptsw) are lazily cached,
a non-rational sibling for the conversion clause, and one CPGen.GridWeighted.  A run is a seeded history of
setters and getters in any order and repetition (set before ever reading, set twice without reading, feed a
getter's own list back into a setter), uniform weight scaling, type conversions, grid generate / weight /
reset / read, with rejected setters injected while caches are warm.

Oracle: reference model R2 = list of (P_i, w_i), updated by the documented meaning of each setter and compared
at every read and in a final sweep; converter o inverse = identity on the current data; conversion and
uniform scaling leave the function (R1) and the library's own evaluation unchanged; every weighted grid point
carries exactly its own weight (multiset statement, no index convention presupposed beyond [u][v] geometry).
"""
from sim import shapes, refmodel as R
from sim.core import Rng, close

PROPS = ["C09"]
BUDGET = {"C09": {"quick": {"runs": 16000, "wall_cap_s": 150}, "thorough": {"runs": 300000, "wall_cap_s": 1800}}}
RULE = {"C09": "one case = one seeded history (2-20 steps) of ctrlptsw / ctrlpts / weights setters and getters, weight scaling, "
               "conversions, helper-converter round trips and weighted-grid operations with rejected setters; non-trivial = at "
               "least two setters of different views with a read of a cached view between them; distinct = distinct "
               "operation-list digest"}
ASSUMPTIONS = {"C09": ["<= 24 control points, coordinates k/8, weights k/4 in [0.5,4] (all positive)",
                       "comparison at 1e-12 relative to the data scale (products with dyadic weights are exact, quotients are not)",
                       "the weighted grid clause is stated without presupposing an index convention: every grid point [u][v] equals its own "
                       "unweighted position times the weight it carries, and the multiset of carried weights equals the multiset of given weights "
                       "(given weights are pairwise different, so each is used exactly once)"]}
COMPONENTS = {"real": ["geomdl NURBS.* property setters/getters and caches, compatibility converters, convert.*, CPGen.GridWeighted (working tree)"],
              "stub": ["none - the simulator decides the setter/getter history and the rejected setters"]}
TOL = 1e-12


def prepare():
    shapes.G.load()
    from geomdl import CPGen  # noqa


def gen(prop, stream, tier, avoid):
    rng = stream("ops")
    kn = stream("knobs")
    knobs = {"cache_size": None, "reject_p": kn.pick([0.0, 0.0, 0.1, 0.25])}
    kind = rng.weighted([("curve", 4), ("surface", 4), ("volume", 1.5)])
    spec = shapes.gen_shape(rng, kind=kind, rational=True, max_size=5 if kind != "volume" else 3, max_degree=3)
    nops = kn.pick([2, 3, 4, 5, 6, 8, 10, 14, 20] + ([30, 40] if tier == "thorough" else []))
    w_grid = kn.pick([0.0, 1.0, 3.0]) if "grid" not in avoid else 0.0
    ops = []
    for _ in range(nops):
        k = rng.weighted([("set_ptsw", 2), ("set_pts", 2), ("set_weights", 2), ("read", 4), ("scale", 1), ("reassign", 1),
                          ("convert", 0.7), ("helpers", 1), ("grid", w_grid), ("copy_edit", 0.6),
                          ("resize", 0.5 if kind == "curve" else 0.0)])
        op = {"op": k, "seed": rng.randrange(1 << 30)}
        if k == "read":
            op["views"] = [rng.pick(["ctrlpts", "weights", "ctrlptsw", "ctrlpts2d", "eval"]) for _ in range(rng.pick([1, 1, 2, 3]))]
        elif k == "scale":
            op["c"] = rng.pick([2.0, 0.5, 4.0, 0.25])
        elif k == "reassign":
            op["view"] = rng.pick(["ctrlpts", "weights", "ctrlptsw"])
            # read / edit one entry of the returned list in place / write back (w = c.weights; w[i] = x; c.weights = w)
            op["edit"] = rng.randrange(64) if rng.chance(0.6) else None
        elif k == "convert":
            if rng.chance(0.35):
                op["aL"] = [[rng.pick([-2.0, 0.0, 1.0, 3.5]), rng.pick([0.5, 2.0, 4.0])] for _ in range(3)][:shapes.DIRS[kind]]
        elif k == "grid":
            op["g"] = rng.weighted([("generate", 2), ("weight_list", 3), ("weight_scalar", 1), ("read", 4), ("reset", 0.5), ("bumps", 1), ("weight_reject", 1)])
            op["bad"] = rng.pick(["nonpositive_list", "nonpositive_list", "short_list", "scalar"])
            op["nu"], op["nv"] = rng.randint(1, 5), rng.randint(1, 5)
            if op["nu"] == op["nv"]:
                op["nv"] += 1
            op["w"] = rng.randint(2, 16) / 4.0
            op["wseq"] = rng.pick(["list", "list", "tuple"])
            op["scribble"] = rng.chance(0.4)
        if k in ("set_ptsw", "set_pts", "set_weights", "helpers"):
            op["seq"] = rng.pick(["list", "list", "tuple"])          # sequence type the caller hands to the setter
            op["scribble"] = rng.chance(0.3)
            if k == "set_ptsw" and kind == "surface" and rng.chance(0.3):
                op["via2d"] = True                                   # through the 2-dimensional view (surface.ctrlpts2d = rows)
        if k in ("set_ptsw", "set_pts", "set_weights") and rng.chance(knobs["reject_p"]):
            op["reject"] = rng.pick(["length", "dimension"])
            op.pop("via2d", None)
        ops.append(op)
    return {"knobs": knobs, "objects": [spec], "ops": ops}


def sample_view(script, res):
    s = script["objects"][0]
    return {"run": script["run"], "object": {"kind": s["kind"], "degrees": s["degrees"], "sizes": s["sizes"]},
            "history": [{k: v for k, v in op.items() if k != "seed"} for op in script["ops"][:20]]}


def _short(x):
    s = repr(x)
    return s if len(s) < 300 else s[:300] + "..."


def run(script, ctx):
    g = shapes.G.load()
    from geomdl import CPGen
    import json as _json
    spec = _json.loads(_json.dumps(script["objects"][0]))
    obj = shapes.build(spec)
    kind, nd, dim = spec["kind"], shapes.DIRS[spec["kind"]], spec["dim"]
    sizes = list(spec["sizes"])
    n = len(spec["P"])
    P = [list(p) for p in spec["P"]]
    W = list(spec["W"])
    sig = dict(kind=kind)
    grid = None
    gm = None     # grid model: {"nu","nv","w": list or None}
    setters_seen = []
    read_since = False

    def pw():
        return [[c * w for c in p] + [w] for p, w in zip(P, W)]

    def check_view(view, when):
        if view == "ctrlpts":
            got, exp = [list(p) for p in obj.ctrlpts], P
        elif view == "weights":
            got, exp = list(obj.weights), W
        elif view == "ctrlptsw":
            got, exp = [list(p) for p in obj.ctrlptsw], pw()
        elif view == "ctrlpts2d":
            if nd != 2:
                return
            q = pw()
            got = [[list(p) for p in row] for row in obj.ctrlpts2d]
            exp = [[q[v + u * sizes[1]] for v in range(sizes[1])] for u in range(sizes[0])]
        else:
            model = R.Spline(spec["degrees"], spec["knots"], sizes, pw(), True, float)
            prm = [0.3125, 0.6875, 0.4375][:nd]
            got = list(obj.evaluate_single(prm[0] if nd == 1 else prm))
            exp = model.eval(prm)
            ok, why = close(got, exp, 1e-9)
            if not ok:
                ctx.fail("view_inconsistent", "%s: the shape evaluates to %r at %r but its (P, w) data give %r (%s)" % (when, got, prm, exp, why), view="eval", **sig)
            return
        ctx.log("read", view, len(got))
        ok, why = close(got, exp, TOL)
        if not ok:
            ctx.fail("view_inconsistent", "%s: view '%s' is not (P, w)-consistent with what was set: %s\n  got     : %s\n  expected: %s" % (
                when, view, why, _short(got), _short(exp)), view=view, **sig)

    for idx, op in enumerate(script["ops"]):
        ctx.step = idx
        k = op["op"]
        rng = Rng(op["seed"], "w")
        if k in ("set_ptsw", "set_pts", "set_weights"):
            newP = shapes.gen_points(rng, n, dim)
            newW = shapes.gen_weights(rng, n, unit_chance=0.05)
            if rng.chance(0.12):
                # weights a hair away from one (a value that went through single precision, 1 + rounding noise): still weights
                for j_ in rng.sample(range(n), min(n, 2)):
                    newW[j_] = 1.0 + rng.pick([1, -1, 3]) * 2.0 ** -25
                ctx.probe("weight_within_1e-7_of_one")
            rej = op.get("reject")
            tup = op.get("seq") == "tuple"
            if tup:
                ctx.probe("setter_given_tuples")
            try:
                if k == "set_ptsw":
                    val = [[c * w for c in p] + [w] for p, w in zip(newP, newW)]
                    if rej == "length":
                        val = val[:-1]
                    elif rej == "dimension":
                        val[n // 2] = val[n // 2][:-2]
                    if op.get("via2d") and nd == 2 and not rej:
                        rows = [[val[v + u * sizes[1]] for v in range(sizes[1])] for u in range(sizes[0])]
                        obj.ctrlpts2d = tuple(tuple(tuple(q) for q in r) for r in rows) if tup else rows
                        ctx.probe("set_through_ctrlpts2d")
                    else:
                        obj.ctrlptsw = tuple(tuple(q) for q in val) if tup else val
                    if not rej:
                        P, W = [list(q) for q in newP], list(newW)
                elif k == "set_pts":
                    val = newP
                    if rej == "length":
                        val = val[:-1]
                    elif rej == "dimension":
                        val = [p + [1.0, 2.0] for p in val]
                    obj.ctrlpts = tuple(tuple(q) for q in val) if tup else val
                    if not rej:
                        P = [list(q) for q in newP]
                else:
                    val = newW
                    if rej:
                        val = val + [1.0]
                    obj.weights = tuple(val) if tup else val
                    if not rej:
                        W = list(newW)
                if rej:
                    # an invalid value was accepted: nothing is asserted about the faulted call, but the object is no longer one we can model
                    ctx.fault("rejected_setter_accepted")
                    ctx.log("reject_accepted", k, rej)
                    ctx.ops_executed += 1
                    return
            except Exception as e:
                if not rej:
                    ctx.fail("valid_setter_raised", "%s with valid data raised %r" % (k, e), op=k, **sig)
                ctx.fault("rejected_setter")
                ctx.log("reject", k, rej, type(e).__name__)
                ctx.ops_executed += 1
                # after a rejected setter the object either kept its data or lost it; if it lost it, stop (narrow relaxation)
                try:
                    if len(obj.ctrlptsw) != n:
                        ctx.probe("object_left_undefined")
                        return
                except Exception:
                    ctx.probe("object_left_undefined")
                    return
                continue
            if op.get("scribble") and not tup and not rej and not op.get("via2d"):
                # the caller goes on editing the list it passed (to build its next shape from it); the shape keeps its own data
                if k == "set_weights":
                    val.reverse()
                    val[0] = val[0] * 2.0
                else:
                    val[0][0] = val[0][0] + 1.0
                    val[-1] = [c * 0.5 for c in val[-1]]
                ctx.probe("caller_reused_its_argument_list_after_the_setter")
            ctx.log("set", k)
            ctx.ops_executed += 1
            if setters_seen and setters_seen[-1] != k and read_since:
                ctx.nontrivial = True
                ctx.probe("setter_of_other_view_after_read")
            setters_seen.append(k)
            read_since = False
            ctx.state("%s:%s" % (kind, k))
        elif k == "read":
            for v in op["views"]:
                check_view(v, "step %d" % idx)
                if v in ("ctrlpts", "weights"):
                    read_since = True
            ctx.ops_executed += 1
        elif k == "scale":
            before = list(obj.evaluate_single([0.4375, 0.5625, 0.3125][:nd] if nd > 1 else 0.4375))
            obj.weights = [w * op["c"] for w in obj.weights]
            W = [w * op["c"] for w in W]
            after = list(obj.evaluate_single([0.4375, 0.5625, 0.3125][:nd] if nd > 1 else 0.4375))
            ok, why = close(after, before, 1e-9)
            if not ok:
                ctx.fail("scaling_moved_point", "multiplying all weights by %r moved a point: %r -> %r" % (op["c"], before, after), op=k, **sig)
            ctx.log("scale", op["c"])
            ctx.ops_executed += 1
            read_since = True
        elif k == "resize":
            # a control polygon with ANOTHER number of points is assigned through the unweighted view (points added to / taken
            # from the curve), then a matching knot vector: the points read back are the points set, and the three views agree
            # (whatever weights the library gives the new polygon - they must be positive and one per point)
            n2 = max(spec["degrees"][0] + 1, n + rng.pick([-2, -1, 1, 2, 3]))
            if n2 == n:
                n2 = n + 1
            newP = shapes.gen_points(rng, n2, dim)
            try:
                obj.ctrlpts = [list(q) for q in newP]
                obj.knotvector = shapes.gen_knots(rng, spec["degrees"][0], n2)
            except Exception as e:
                ctx.fail("valid_setter_raised", "assigning %d control points (had %d) through ctrlpts and a matching knot vector raised %r" % (n2, n, e), op=k, **sig)
            got = [list(q) for q in obj.ctrlpts]
            ok, why = close(got, newP, TOL)
            if not ok:
                ctx.fail("view_inconsistent", "step %d: %d control points were assigned through ctrlpts (the curve had %d), ctrlpts reads back %d points: %s" % (
                    idx, n2, n, len(got), why), view="ctrlpts", **sig)
            newW = list(obj.weights)
            if len(newW) != n2 or any(not (w_ > 0) for w_ in newW):
                ctx.fail("view_inconsistent", "step %d: after assigning %d control points the weights view is %r" % (idx, n2, newW), view="weights", **sig)
            n, P, W = n2, [list(q) for q in newP], newW
            sizes[0] = n2
            spec["sizes"] = sizes
            spec["knots"] = [list(obj.knotvector)]
            ctx.log("resize", n2)
            ctx.ops_executed += 1
            ctx.probe("control_polygon_resized_through_ctrlpts")
            for vv in ("ctrlptsw", "eval"):
                check_view(vv, "step %d, after the control polygon was resized to %d points" % (idx, n2))
            read_since = False
        elif k == "copy_edit":
            # a deep copy is edited with the get - modify one entry in place - set idiom; the ORIGINAL keeps its three views
            # consistent (checked by the reads that follow and right here), and so does the copy
            import copy as _copy
            cp_ = _copy.deepcopy(obj)
            v = rng.pick(["ctrlpts", "weights", "ctrlptsw"])
            lst = getattr(cp_, v)
            i = rng.randrange(n)
            if v == "weights":
                lst[i] = lst[i] * 2.0
            else:
                lst[i][0] = lst[i][0] + 10.0
            setattr(cp_, v, lst)
            ctx.log("copy_edit", v, i)
            ctx.ops_executed += 1
            ctx.probe("deep_copy_edited_in_place_and_written_back")
            for vv in ("ctrlpts", "weights", "ctrlptsw", "eval"):
                check_view(vv, "step %d, the original after its deep copy was edited through '%s'" % (idx, v))
            cw = [list(q) for q in cp_.ctrlptsw]
            cpw = [[c * w_ for c in q] + [w_] for q, w_ in zip(cp_.ctrlpts, cp_.weights)]
            ok, why = close(cw, cpw, TOL)
            if not ok:
                ctx.fail("view_inconsistent", "step %d: the edited deep copy's ctrlptsw is not ctrlpts * weights: %s" % (idx, why), view="copy", **sig)
        elif k == "reassign":
            v = op["view"]
            lst = getattr(obj, v)
            if op.get("edit") is not None:
                i = op["edit"] % n
                np_ = shapes.gen_points(rng, 1, dim)[0]
                nw = rng.pick([w for w in (0.5, 0.75, 1.5, 2.0, 3.0, 4.0) if w != W[i]])
                if v == "weights":
                    lst[i] = nw
                    W = W[:i] + [nw] + W[i + 1:]
                elif v == "ctrlpts":
                    lst[i] = list(np_)
                    P = P[:i] + [list(np_)] + P[i + 1:]
                else:
                    lst[i] = [c * nw for c in np_] + [nw]
                    P = P[:i] + [list(np_)] + P[i + 1:]
                    W = W[:i] + [nw] + W[i + 1:]
                ctx.probe("getter_list_edited_in_place_and_written_back")
                read_since = False
            setattr(obj, v, lst)      # feed the getter's own list back into the setter
            ctx.log("reassign", v, op.get("edit"))
            ctx.ops_executed += 1
            ctx.probe("getter_list_fed_back_into_setter")
        elif k == "convert":
            # non-rational sibling with the same P: to rational (unit weights) and back
            cal = op.get("aL")
            if cal:
                # the sibling keeps its knot vectors in their own range a + L * [0, 1] (normalize_kv=False): an identically
                # evaluating shape answers the same parameters of THAT range
                ck = [shapes.affine_knots(kv, a_, L_) for kv, (a_, L_) in zip(spec["knots"], cal)]
                bs = shapes.new_object(kind, False, normalize_kv=False)
                ctx.probe("conversion_of_unnormalised_shape")
            else:
                cal = [[0.0, 1.0]] * nd
                ck = spec["knots"]
                bs = shapes.new_object(kind, False)
            shapes.define(bs, spec["degrees"], sizes, P, ck)
            nb = g.convert.bspline_to_nurbs(bs)
            back = g.convert.nurbs_to_bspline(nb)
            model = R.Spline(spec["degrees"], ck, sizes, P, False, float)
            for prm0 in ([0.0] * nd, [1.0] * nd, [0.3125, 0.6875, 0.4375][:nd]):
                prm = [a_ + L_ * x for x, (a_, L_) in zip(prm0, cal)]
                e = model.eval(prm)
                # the sources of both conversions are evaluated too, AFTER the conversions: converting must not disturb its input
                for nm, o in (("bspline_to_nurbs", nb), ("nurbs_to_bspline", back), ("bspline_to_nurbs (its input afterwards)", bs)):
                    try:
                        got = list(o.evaluate_single(prm[0] if nd == 1 else prm))
                    except Exception as ee:
                        ctx.fail("conversion_changed_shape", "%s: the converted shape cannot be evaluated at %r (a parameter of the original's domain): %r" % (
                            nm, prm, ee), op=nm, **sig)
                    ok, why = close(got, e, 1e-9)
                    if not ok:
                        ctx.fail("conversion_changed_shape", "%s: converted shape evaluates to %r at %r, original to %r" % (nm, got, prm, e), op=nm, **sig)
            if not nb.rational or back.rational:
                ctx.fail("conversion_changed_shape", "conversion returned rational=%r / %r" % (nb.rational, back.rational), op="convert", **sig)
            ok, why = close(list(nb.weights), [1.0] * n, 0.0, 1.0)
            if not ok:
                ctx.fail("conversion_changed_shape", "bspline_to_nurbs did not produce unit weights: %s" % why, op="bspline_to_nurbs", **sig)
            # ... and the live rational shape itself: whatever nurbs_to_bspline returns for it (the object itself when its
            # weights are not all one) must evaluate to the same points
            model = R.Spline(spec["degrees"], spec["knots"], sizes, pw(), True, float)
            res = g.convert.nurbs_to_bspline(obj)
            for prm in ([0.0] * nd, [1.0] * nd, [0.3125, 0.6875, 0.4375][:nd], [0.5625, 0.1875, 0.8125][:nd]):
                e = model.eval(prm)
                # (nurbs_to_bspline documents a tolerance: weights within 10e-8 of one count as one - the result then differs by that much)
                tolc = 5e-7 if (all(abs(w_ - 1.0) <= 10e-8 for w_ in W) and any(w_ != 1.0 for w_ in W)) else 1e-9
                for nm, o in (("result", res), ("input afterwards", obj)):
                    got = list(o.evaluate_single(prm[0] if nd == 1 else prm))
                    ok, why = close(got, e, tolc if nm == "result" else 1e-9)
                    if not ok:
                        ctx.fail("conversion_changed_shape", "nurbs_to_bspline of a rational %s with weights in [%r, %r]: the %s evaluates to %r at %r, the input evaluated to %r" % (
                            kind, min(W), max(W), nm, got, prm, e), op="nurbs_to_bspline", **sig)
            if all(w <= 1.0 for w in W) and any(w < 1.0 for w in W):
                ctx.probe("nurbs_to_bspline_on_weights_le_1")
            ctx.ops_executed += 1
            ctx.probe("conversion_checked")
        elif k == "helpers":
            c = g.compatibility
            q = pw()
            if op.get("seq") == "tuple":
                # the documented parameter type of the helpers is "list, tuple"
                T = lambda x: tuple(tuple(p_) if isinstance(p_, list) else p_ for p_ in x)      # noqa: E731
                ctx.probe("helpers_given_tuples")
            else:
                T = lambda x: x      # noqa: E731
            checks = [("combine_ctrlpts_weights", c.combine_ctrlpts_weights(T(P), T(W)), q),
                      ("separate_ctrlpts_weights", list(c.separate_ctrlpts_weights(T(q))), [P, W]),
                      ("generate_ctrlpts_weights", c.generate_ctrlpts_weights(T(q)), [list(p) + [w] for p, w in zip(P, W)]),
                      ("generate_ctrlptsw", c.generate_ctrlptsw(T([list(p) + [w] for p, w in zip(P, W)])), q),
                      ("generate_ctrlptsw o generate_ctrlpts_weights", c.generate_ctrlptsw(c.generate_ctrlpts_weights(q)), q),
                      ("combine o separate", c.combine_ctrlpts_weights(*c.separate_ctrlpts_weights(q)), q)]
            if nd == 2:
                q2 = [[q[v + u * sizes[1]] for v in range(sizes[1])] for u in range(sizes[0])]
                checks.append(("generate_ctrlptsw2d o generate_ctrlpts2d_weights", c.generate_ctrlptsw2d(c.generate_ctrlpts2d_weights(q2)), q2))
                checks.append(("flip_ctrlpts2d o flip_ctrlpts2d", c.flip_ctrlpts2d(c.flip_ctrlpts2d(q2)), q2))
                checks.append(("flip_ctrlpts_u o flip_ctrlpts", c.flip_ctrlpts_u(c.flip_ctrlpts(q, sizes[0], sizes[1]), sizes[0], sizes[1]), q))
                # documented meaning: v-row order (index v + u*size_v) <-> u-row order (index u + v*size_u), [u][v] <-> [v][u]
                su, sv = sizes
                urow = [q[v + u * sv] for v in range(sv) for u in range(su)]
                checks.append(("flip_ctrlpts (v-row -> u-row order)", c.flip_ctrlpts(q, su, sv), urow))
                checks.append(("flip_ctrlpts_u (u-row -> v-row order)", c.flip_ctrlpts_u(urow, su, sv), q))
                checks.append(("flip_ctrlpts2d ([u][v] -> [v][u])", c.flip_ctrlpts2d(q2), [[q2[u][v] for u in range(su)] for v in range(sv)]))
                checks.append(("generate_ctrlpts2d_weights", c.generate_ctrlpts2d_weights(q2),
                               [[list(P[v + u * sv]) + [W[v + u * sv]] for v in range(sv)] for u in range(su)]))
            for nm, got, exp in checks:
                ok, why = close(got, exp, TOL)
                if not ok:
                    ctx.fail("helper_not_inverse", "compatibility.%s is not consistent with (P, w): %s" % (nm, why), op=nm, **sig)
            ctx.ops_executed += 1
        elif k == "grid":
            gsig = dict(kind="grid")
            if grid is None:
                grid = CPGen.GridWeighted(4.0, 8.0, z_value=2.0)
            gk = op["g"]
            if gk == "bumps":
                # hills on the grid (positions drawn by the library from Python's global generator - seeded here): the z values of
                # the grid points change; the weighted grid read afterwards carries the new heights. Atomic: a grid large enough,
                # weights, a read (the weighted grid is cached), the bumps, and the checked read below.
                import random as _random
                if gm is None or gm["nu"] < 4 or gm["nv"] < 4:
                    grid.generate(5, 6)
                    gm = {"nu": 5, "nv": 6, "w": None}
                if gm["w"] is None:
                    grid.weight = op["w"]
                    gm["w"] = [op["w"]] * ((gm["nu"] + 1) * (gm["nv"] + 1))
                _ = grid.grid
                _random.seed(op["seed"])
                try:
                    grid.bumps(1, bump_height=op["w"] + 1.0, base_extent=1)
                    gm["bumped"] = True
                    ctx.probe("grid_bumps")
                    ctx.log("grid_bumps", "ok")
                except Exception as e:
                    ctx.log("grid_bumps", type(e).__name__)
                gk = "read"
            if gk == "generate":
                grid.generate(op["nu"], op["nv"])
                gm = {"nu": op["nu"], "nv": op["nv"], "w": None}
                ctx.log("grid_generate", op["nu"], op["nv"])
            elif gm is None:
                ctx.ops_skipped += 1
                continue
            elif gk == "weight_list":
                cnt = (gm["nu"] + 1) * (gm["nv"] + 1)
                ws = [(i + 2) / 4.0 for i in range(cnt)]       # pairwise different
                rng.shuffle(ws)
                gm["w"] = list(ws)
                passed = tuple(ws) if op.get("wseq") == "tuple" else ws
                grid.weight = passed
                if op.get("scribble") and isinstance(passed, list):
                    # the caller goes on using its list (for its next grid); the grid must hold its own weights
                    passed.reverse()
                    passed[0] = passed[0] * 2.0
                    ctx.probe("caller_reused_its_weight_list_after_the_setter")
                ctx.log("grid_weight_list", cnt, op.get("wseq"), bool(op.get("scribble")))
            elif gk == "weight_scalar":
                grid.weight = op["w"]
                gm["w"] = [op["w"]] * ((gm["nu"] + 1) * (gm["nv"] + 1))
                ctx.log("grid_weight_scalar", op["w"])
            elif gk == "weight_reject":
                # a weight assignment the setter has to refuse, while the weighted grid is cached: afterwards every view of the grid
                # (the weight vector, the weighted points) still shows the weights it had
                cnt = (gm["nu"] + 1) * (gm["nv"] + 1)
                bad = {"nonpositive_list": [-(i + 1.0) for i in range(cnt)], "short_list": [1.5] * (cnt - 1), "scalar": -op["w"]}[op.get("bad", "scalar")]
                _ = grid.grid
                try:
                    grid.weight = bad
                except (ValueError, TypeError) as e:
                    ctx.fault("rejected_setter")
                    ctx.log("grid_weight_reject", op.get("bad"), type(e).__name__)
                else:
                    ctx.fault("rejected_setter_accepted")
                    ctx.log("grid_weight_reject_accepted", op.get("bad"))
                    grid, gm = None, None          # what an accepted non-positive weight means is not modelled: start a new grid
            elif gk == "reset":
                grid.reset()
                gm = None
                ctx.log("grid_reset")
            else:
                got = [[list(p) for p in row] for row in grid.grid]
                base_grid = [[list(p) for p in row] for row in CPGen.Grid.grid.fget(grid)]
                nu, nv = gm["nu"], gm["nv"]
                ws = gm["w"] or [1.0] * ((nu + 1) * (nv + 1))
                if len(got) != nu + 1 or any(len(r) != nv + 1 for r in got):
                    ctx.fail("grid_inconsistent", "weighted grid has shape %dx%s, generated %dx%d" % (len(got), [len(r) for r in got][:3], nu + 1, nv + 1), view="grid", **gsig)
                exp = []
                for u in range(nu + 1):
                    row = []
                    for v in range(nv + 1):
                        w = ws[v + u * (nv + 1)]
                        row.append([(4.0 / nu) * u * w, (8.0 / nv) * v * w, 2.0 * w, w])
                    exp.append(row)
                # multiset statement first (no index convention): each given weight used exactly once
                gw = sorted(p[3] for r in got for p in r)
                if gm["w"] is not None:
                    vw = sorted(float(x) for x in grid.weight)
                    if len(vw) != len(gw) or any(abs(a - b) > 1e-12 for a, b in zip(vw, gw)):
                        ctx.fail("grid_inconsistent", "the weight vector %s is not the weights the grid points carry %s" % (_short(vw), _short(gw)),
                                 view="grid.weight_vector", **gsig)
                if any(abs(a - b) > 1e-12 for a, b in zip(gw, sorted(ws))):
                    ctx.fail("grid_inconsistent", "weighted grid does not use each given weight exactly once: grid weights %s, given %s" % (
                        _short(gw), _short(sorted(ws))), view="grid.weights_multiset", **gsig)
                # every point is its own unweighted position times its own weight
                for u in range(nu + 1):
                    for v in range(nv + 1):
                        p = got[u][v]
                        pos = [(4.0 / nu) * u, (8.0 / nv) * v, 2.0]
                        if gm.get("bumped"):
                            pos = list(base_grid[u][v])      # the unweighted grid as the parent class reports it
                        ok, why = close(p[:3], [c * p[3] for c in pos], 1e-9, 16.0)
                        if not ok:
                            ctx.fail("grid_inconsistent", "grid point [%d][%d] = %r is not its position %r times its weight %r" % (u, v, p, pos, p[3]),
                                     view="grid.point", **gsig)
                ctx.log("grid_read", nu, nv)
                ctx.probe("grid_read_checked")
            ctx.ops_executed += 1
    ctx.step = len(script["ops"])
    for v in ("ctrlptsw", "ctrlpts", "weights", "ctrlpts2d", "eval"):
        check_view(v, "final sweep")
