"""Property id -> machine module."""
REGISTRY = {
    "C16": "machines.linalg",
}
