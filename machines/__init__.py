"""Property id -> machine module."""
REGISTRY = {
    "C04": "machines.knots",
    "C06": "machines.knots",
    "C09": "machines.weights",
    "C12": "machines.cache",
    "C14": "machines.exchange",
    "C15": "machines.mesh",
    "C16": "machines.linalg",
    "C17": "machines.config",
}
