"""C12 - no stale derived state after any sequence of edits; deep copies are independent.

World: up to 6 live shapes (BSpline/NURBS x curve/surface/volume), up to 2 containers, deep copies
(copy.deepcopy and the non-in-place transforms).  A run is a seeded history of public *edits* and *reads*;
reads are operations too, so caches are filled at seeded times (both warm-before-edit and cold histories
occur).  Faults: rejected edits placed in the history (bad delta / sample size / knot vector / point
dimension / excess insertion), process-global memo evictions, GEOMDL_CACHE_SIZE knob.

Oracle (purely "derived = f(primary)"): at every read, the value read from the live object must equal what
a freshly built twin (same class, built from the live object's public primary definition in the canonical
order) reports for the same view; at the end of the run every view of every live object is compared.
After every step the primary definition of every object *not* targeted by the step must be unchanged
(copy independence / no cross-object leakage).
"""
import copy

from sim import shapes, pool as simpool
from sim.core import Rng, close, h64, Precondition

PROPS = ["C12"]
BUDGET = {"C12": {"quick": {"runs": 12000, "wall_cap_s": 150}, "thorough": {"runs": 200000, "wall_cap_s": 1800}}}
RULE = {"C12": "one case = one seeded history (3-30 steps) of public edits, reads, rejected edits, deep copies and container "
               "operations over up to 6 live shapes and 2 containers in a fresh process; non-trivial = the history contains a "
               "read -> edit -> read triple on one object where the first read filled a cache that the edit has to invalidate; "
               "distinct = distinct operation-list digest"}
ASSUMPTIONS = {"C12": [
    "clamped normalised shapes, degrees <= 3, <= 6 control points per direction (volumes <= 4), sample sizes 2-8 per direction",
    "the oracle never judges what the primary definition should be after an edit (that is C04/C06/C09...), only that every "
    "derived view equals the same view of a fresh object built from the live object's public primary definition",
    "narrow relaxation: when a rejected or failing edit leaves a primary definition from which no object can be built, the object "
    "is marked undefined until its next full redefinition (counted in reach_probes.object_left_undefined) and not checked meanwhile",
    "tolerance 1e-9 relative: both sides run the same library code on the same data, any O(1) difference is staleness"]}
COMPONENTS = {"real": ["geomdl BSpline/NURBS/multi/operations/tessellate (working tree)", "per-object caches and reset() discipline",
                       "functools.lru_cache memos", "process fork per run"],
              "stub": ["none - the simulator decides the edit/read history, rejected edits, memo evictions and cache size"]}

VIEWS_ALL = ["ctrlpts", "weights", "ctrlptsw", "ctrlpts2d", "evalpts", "bbox", "data", "domain", "sample_size",
             "vertices", "faces", "evaluate_single"]


def prepare():
    shapes.G.load()
    simpool.install()


# ---------------------------------------------------------------------------------------------
# generation

EDITS = [("set_pts", 3), ("set_weights", 2), ("set_knots", 1.5), ("redefine", 1), ("set_delta", 2), ("set_sample", 2),
         ("insert", 2), ("remove", 1), ("refine", 0.7), ("reverse", 2), ("transpose", 1.5), ("flip", 1),
         ("translate", 1.5), ("rotate", 0.8), ("scale", 1), ("deepcopy", 1.2), ("transform_copy", 0.8), ("set_tessellator", 0.5), ("degree_op", 0.6),
         ("scribble", 0.6), ("subeval", 0.6)]
REJECTS = ["bad_delta", "bad_sample", "bad_knots", "bad_point", "bad_insert", "bad_weights"]
CONT_OPS = [("cadd", 3), ("cdelta", 1), ("csample", 1), ("cread", 3), ("ctess", 1), ("ccopy", 0.8)]


def gen(prop, stream, tier, avoid):
    rng = stream("ops")
    kn = stream("knobs")
    knobs = {"cache_size": kn.pick([None, None, None, "1", "16", "1024"]),
             "clear_p": kn.pick([0.0, 0.0, 0.1]),
             "reject_p": kn.pick([0.0, 0.0, 0.1, 0.25])}
    nobj = kn.pick([1, 1, 2, 2, 3, 4])
    focus = kn.pick([None, "curve", "surface", "volume", None])
    objs = []
    for _ in range(nobj):
        kind = focus or rng.weighted([("curve", 4), ("surface", 4), ("volume", 1.2)])
        spec = shapes.gen_shape(rng, kind=kind, max_size=6, max_degree=3, dim=3 if rng.chance(0.8) else None)
        spec["delta"] = rng.pick([0.5, 0.25, 0.2])
        if kind != "curve" and rng.chance(0.5):
            # a different sampling density per direction (equal densities mask direction mix-ups)
            spec["deltas"] = [rng.pick([0.5, 0.25, 0.2, 0.125]) for _ in range(shapes.DIRS[kind])]
        objs.append(spec)
    ncont = kn.pick([0, 0, 1, 1, 2]) if "container" not in avoid else 0
    conts = []
    for _ in range(ncont):
        conts.append({"kind": rng.pick([o["kind"] for o in objs]), "delta": rng.pick([0.5, 0.25, 0.2])})
    nops = kn.pick([3, 4, 5, 6, 8, 10, 12, 16, 20, 30] + ([45, 60] if tier == "thorough" else []))
    w_read = kn.uniform(1.0, 4.0)
    w_edit = kn.uniform(1.0, 3.0)
    w_cont = kn.uniform(0.5, 2.0) if conts else 0.0
    edit_w = [(e, w * kn.uniform(0.3, 1.5)) for e, w in EDITS]
    ops = []
    for _ in range(nops):
        if rng.chance(knobs["clear_p"]):
            ops.append({"op": "cache_clear"})
        cls = rng.weighted([("read", w_read), ("edit", w_edit), ("cont", w_cont)])
        o = rng.randrange(6)
        if cls == "read":
            nv = rng.pick([1, 1, 2, 3])
            ops.append({"op": "read", "obj": o, "views": [rng.pick(VIEWS_ALL) for _ in range(nv)],
                        "param": [rng.randint(0, 16) / 16.0 for _ in range(3)]})
        elif cls == "cont":
            c = rng.weighted(CONT_OPS)
            op = {"op": c, "cont": rng.randrange(2), "obj": o}
            if c == "cdelta":
                op["value"] = rng.pick([0.5, 0.25, 0.2, 0.125])
            elif c == "csample":
                op["value"] = rng.randint(3, 6)
            elif c == "cread":
                op["views"] = [rng.pick(["evalpts", "bbox", "evalpts", "vertices", "faces"])]
            elif c == "ctess":
                op["num_procs"] = rng.pick([1, 2, 2, 4])
                op["force"] = rng.chance(0.5)
                op["delta"] = rng.chance(0.7)
            ops.append(op)
        else:
            if rng.chance(knobs["reject_p"]):
                ops.append({"op": "reject", "what": rng.pick(REJECTS), "obj": o, "seed": rng.randrange(1 << 30),
                            "dir": rng.randrange(3)})
                continue
            e = rng.weighted(edit_w)
            op = {"op": e, "obj": o, "seed": rng.randrange(1 << 30), "dir": rng.randrange(3)}
            if e == "set_tessellator":
                op["plug_back"] = rng.chance(0.5)
            if e == "set_knots":
                op["unclamped"] = rng.pick([False, False, False, True, "outer", "outer"])
            if e == "set_pts":
                op["via"] = rng.pick(["ctrlpts", "set_ctrlpts", "ctrlptsw", "ctrlpts2d"])
            elif e == "set_delta":
                op["value"] = rng.pick([0.5, 0.25, 0.2, 0.125, 0.4, 0.4, 0.3, 0.08, 0.07])
                op["single"] = rng.chance(0.4)
            elif e == "set_sample":
                op["value"] = rng.pick([2, 2, 3, 4, 5, 6, 7, 8, 12])
                op["single"] = rng.chance(0.4)
            elif e in ("insert", "remove"):
                op["via"] = rng.pick(["method", "operations"])
                op["at"] = ["knot", rng.randrange(6)] if (e == "remove" or rng.chance(0.3)) else ["new", rng.randint(1, 127)]
                op["num"] = rng.pick([1, 1, 2])
            elif e == "refine":
                op["density"] = 1
            elif e == "transpose":
                op["via"] = rng.pick(["method", "operations"])
            elif e == "translate":
                op["vec"] = [rng.dyadic(-4, 4, 4) for _ in range(3)]
            elif e == "rotate":
                op["angle"] = rng.pick([90.0, 180.0, 45.0, 30.0])
                op["axis"] = rng.randrange(3)
            elif e == "scale":
                op["mult"] = rng.pick([2.0, 0.5, 4.0, 0.25])
            elif e == "transform_copy":
                op["how"] = rng.pick(["translate", "scale", "rotate", "decompose"])
                op["piece"] = rng.randrange(8)
                op["vec"] = [rng.dyadic(-4, 4, 4) for _ in range(3)]
                op["mult"] = rng.pick([2.0, 0.5])
                op["angle"] = 90.0
            ops.append(op)
    if kn.chance(0.12):
        # motif: an unclamped knot vector, sampled; then only its outermost knots move (same domain, same interior), sampled again
        o_ = kn.randrange(nobj)
        d_ = kn.randrange(3)
        prm = [kn.randint(0, 16) / 16.0 for _ in range(3)]
        motif = [{"op": "set_knots", "obj": o_, "seed": kn.randrange(1 << 30), "dir": d_, "unclamped": True},
                 {"op": "read", "obj": o_, "views": ["evalpts"], "param": prm},
                 {"op": "set_knots", "obj": o_, "seed": kn.randrange(1 << 30), "dir": d_, "unclamped": "outer"},
                 {"op": "read", "obj": o_, "views": ["evalpts", kn.pick(["bbox", "vertices", "evaluate_single"])], "param": prm}]
        at = kn.randint(0, len(ops))
        ops = ops[:at] + motif + ops[at:]
    surf_ids = [j for j, sp in enumerate(objs) if sp["kind"] == "surface"]
    if surf_ids and kn.chance(0.12):
        # motif: the mesh is read, the tessellation component is exchanged, the surface is edited, the EARLIER component is plugged
        # back in (it still holds the mesh of its time), the mesh is read again
        o_ = kn.pick(surf_ids)
        prm = [0.5, 0.5, 0.5]
        motif = [{"op": "read", "obj": o_, "views": ["vertices"], "param": prm},
                 {"op": "set_tessellator", "obj": o_, "seed": kn.randrange(1 << 30), "dir": 0, "plug_back": False},
                 {"op": "translate", "obj": o_, "seed": kn.randrange(1 << 30), "dir": 0, "vec": [2.0, -1.0, 0.5]},
                 {"op": "set_tessellator", "obj": o_, "seed": kn.randrange(1 << 30), "dir": 0, "plug_back": True},
                 {"op": "read", "obj": o_, "views": ["vertices", "faces"], "param": prm}]
        at = kn.randint(0, len(ops))
        ops = ops[:at] + motif + ops[at:]
    return {"knobs": knobs, "objects": objs, "containers": conts, "ops": ops}


def simplify(script):
    if script["knobs"].get("cache_size") is not None:
        yield dict(script, knobs=dict(script["knobs"], cache_size=None))
    used = {op.get("obj") for op in script["ops"] if "obj" in op}
    n = len(script["objects"])
    usedm = {u % n for u in used} if n else set()
    if usedm and max(usedm) + 1 < n:
        yield dict(script, objects=script["objects"][:max(usedm) + 1])
    if script["containers"] and not any(op["op"].startswith("c") and op["op"] != "cache_clear" for op in script["ops"]):
        yield dict(script, containers=[])
    for i, op in enumerate(script["ops"]):
        if op["op"] == "read" and len(op["views"]) > 1:
            for v in op["views"]:
                ops = list(script["ops"])
                ops[i] = dict(op, views=[v])
                yield dict(script, ops=ops)


def sample_view(script, res):
    return {"run": script["run"], "knobs": script["knobs"],
            "objects": [{"kind": s["kind"], "rational": s["rational"], "degrees": s["degrees"], "sizes": s["sizes"]}
                        for s in script["objects"]],
            "containers": script["containers"],
            "history": [{k: v for k, v in op.items() if k != "seed"} for op in script["ops"][:30]]}


# ---------------------------------------------------------------------------------------------
# execution

class Live:
    def __init__(self, obj, kind, rational, dim):
        self.obj = obj
        self.kind = kind
        self.rational = rational
        self.dim = dim
        self.nd = shapes.DIRS[kind]
        self.undefined = False
        self.warm = set()
        self.edited_warm = False
        self.prim = None
        self.pair = None  # index of the object this one was copied from


def _prim(lv):
    try:
        d = shapes.definition(lv.obj)
        return [d["degrees"], d["knots"], d["sizes"], d["ctrlptsw"], shapes.deltas(lv.obj)]
    except Exception:
        return None


def get_view(obj, view, param=None):
    """Public read of one derived view, converted to plain nested lists. Returns (applicable, value)."""
    nd = obj.pdimension
    if view == "ctrlpts":
        return True, [list(p) for p in obj.ctrlpts]
    if view == "weights":
        if not obj.rational:
            return False, None
        return True, list(obj.weights)
    if view == "ctrlptsw":
        if not obj.rational:
            return False, None
        return True, [list(p) for p in obj.ctrlptsw]
    if view == "ctrlpts2d":
        if nd != 2:
            return False, None
        return True, [[list(p) for p in row] for row in obj.ctrlpts2d]
    if view == "evalpts":
        return True, [list(p) for p in obj.evalpts]
    if view == "bbox":
        return True, [list(p) for p in obj.bbox]
    if view == "data":
        d = obj.data
        return True, [list(d["delta"]), list(d["sample_size"]), list(d["degree"]), [list(k) for k in d["knotvector"]],
                      list(d["size"]), [list(p) for p in d["control_points"]], d["rational"], d["dimension"]]
    if view == "domain":
        dm = obj.domain
        return True, [list(dm)] if nd == 1 else [list(x) for x in dm]
    if view == "sample_size":
        ss = obj.sample_size
        return True, [ss] if nd == 1 else list(ss)
    if view == "vertices":
        if nd != 2:
            return False, None
        return True, [[v.id, list(v.uv), list(v.data)] for v in obj.vertices]
    if view == "faces":
        if nd != 2:
            return False, None
        return True, [[f.id] + list(f.vertex_ids) for f in obj.faces]
    if view == "evaluate_single":
        dm = obj.domain
        dms = [dm] if nd == 1 else dm
        prm = [lo + (hi - lo) * t for (lo, hi), t in zip(dms, param)]
        return True, list(obj.evaluate_single(prm[0] if nd == 1 else prm))
    raise KeyError(view)


CACHED_VIEWS = {"ctrlpts", "weights", "ctrlpts2d", "evalpts", "bbox", "vertices", "faces"}


class World:
    def __init__(self, script, ctx):
        self.ctx = ctx
        self.objs = []
        for spec in script["objects"]:
            o = shapes.build(spec)
            nd = shapes.DIRS[spec["kind"]]
            o.delta = spec["delta"] if nd == 1 else tuple(spec.get("deltas") or [spec["delta"]] * nd)
            self.objs.append(Live(o, spec["kind"], spec["rational"], spec["dim"]))
        g = shapes.G
        self.conts = []
        for c in script["containers"]:
            cls = {"curve": g.multi.CurveContainer, "surface": g.multi.SurfaceContainer, "volume": g.multi.VolumeContainer}[c["kind"]]
            cont = cls()
            cont.delta = c["delta"]
            self.conts.append({"obj": cont, "kind": c["kind"], "members": [], "warm": set(), "edited_warm": False})
        for lv in self.objs:
            lv.prim = _prim(lv)

    def pick(self, i):
        if not self.objs:
            return None, None
        i = i % len(self.objs)
        return i, self.objs[i]


def _model_evalpts(obj):
    """The sampled points by the definition (independent Cox-de Boor model R1; shares no code and no memo with the library):
    sample_size evenly spaced parameters over the domain per direction, first direction outermost. None if not applicable."""
    m = shapes.model_of(obj)
    ss = obj.sample_size
    ss = [ss] if m.pdim == 1 else list(ss)
    if any(n < 2 for n in ss):
        return None
    tot = 1
    for n in ss:
        tot *= n
    if tot > 130:
        return None
    grids = []
    for d, (lo, hi) in enumerate(m.domain()):
        grids.append([lo + (hi - lo) * x / float(ss[d] - 1) for x in range(ss[d])])
    out = []

    def rec(d, cur):
        if d == m.pdim:
            out.append(m.eval_float(cur))
            return
        for v in grids[d]:
            rec(d + 1, cur + [v])
    rec(0, [])
    return out


def _compare(ctx, what, view, got, exp, sig):
    ok, why = close(got, exp, 1e-9)
    if not ok:
        ctx.fail("stale_view", "%s: view '%s' differs from a freshly built object with the same public definition: %s\n  live : %s\n  fresh: %s"
                 % (what, view, why, _short(got), _short(exp)), view=view, **sig)


def _short(x):
    s = repr(x)
    return s if len(s) < 500 else s[:500] + "..."


def _twin(lv):
    try:
        return shapes.twin(lv.obj)
    except Exception:
        return None


def _new_points(rng, n, dim):
    return shapes.gen_points(rng, n, dim)


def _weighted(P, W):
    return [[c * w for c in p] + [w] for p, w in zip(P, W)]


def _apply_edit(world, lv, op, rng):
    """Perform one public edit. Returns 'ok' | 'skip' | ('new', Live)."""
    g = shapes.G
    obj = lv.obj
    e = op["op"]
    nd = lv.nd
    sizes = shapes.definition(obj)["sizes"]
    n = 1
    for s in sizes:
        n *= s
    if e in ("insert", "remove", "refine", "degree_op", "reverse", "transpose", "flip") and getattr(lv, "unclamped", False):
        # knot refinement / removal / degree change of an unclamped shape is outside what the library defines (and outside C12's
        # mutators as used here); the unclamped phase ends with the next clamped knot vector or a redefinition
        return "skip"
    if e == "set_pts":
        P = _new_points(rng, n, lv.dim)
        via = op["via"]
        if via == "ctrlptsw" and not lv.rational:
            via = "ctrlpts"
        if via == "ctrlpts2d" and nd != 2:
            via = "set_ctrlpts"
        if via == "ctrlpts":
            lv.caller_args = [("points", P)]
            obj.ctrlpts = P
        else:
            Pw = _weighted(P, shapes.gen_weights(rng, n)) if lv.rational else P
            lv.caller_args = [("points", Pw)]
            if via == "set_ctrlpts":
                obj.set_ctrlpts(Pw, *sizes)
            elif via == "ctrlptsw":
                obj.ctrlptsw = Pw
            else:
                obj.ctrlpts2d = [[Pw[v + u * sizes[1]] for v in range(sizes[1])] for u in range(sizes[0])]
        return "ok"
    if e == "set_weights":
        if not lv.rational:
            return "skip"
        W_ = shapes.gen_weights(rng, n, unit_chance=0.05)
        lv.caller_args = [("weights", W_)]
        obj.weights = W_
        return "ok"
    if e == "set_knots":
        d = op["dir"] % nd
        degs = shapes.definition(obj)["degrees"]
        kv = shapes.gen_knots(rng, degs[d], sizes[d])
        pdeg = degs[d]
        if op.get("unclamped") == "outer":
            # the current knot vector with only its outermost knots moved (indices 1..degree-1 and their mirror images): the
            # domain [kv[degree], kv[-degree-1]] and everything inside it stay what they are, the basis functions near the ends change
            kv = list(shapes.definition(obj)["knots"][d])
            if kv[0] != 0.0 or kv[-1] != 1.0 or pdeg < 2 or not (kv[pdeg] > 0.0 and kv[-pdeg - 1] < 1.0):
                return "skip"
            fr = [sorted(rng.sample(range(1, 32), pdeg - 1)) for _ in range(2)]
            for q in range(1, pdeg):
                kv[q] = kv[pdeg] * fr[0][q - 1] / 32.0
                kv[-q - 1] = 1.0 - (1.0 - kv[-pdeg - 1]) * fr[1][q - 1] / 32.0
        elif op.get("unclamped") and pdeg >= 1:
            # an unclamped knot vector that still spans [0, 1]: the outer `degree` knots at each end are spread out
            # (first stays 0, last stays 1, so normalisation leaves it alone)
            inner_lo, inner_hi = (kv[pdeg + 1] if len(kv) > 2 * pdeg + 2 else 1.0), (kv[-pdeg - 2] if len(kv) > 2 * pdeg + 2 else 0.0)
            lo_w = min(0.25, inner_lo / 2.0)
            hi_w = min(0.25, (1.0 - inner_hi) / 2.0)
            frac = [sorted(rng.sample(range(1, 16), pdeg)) for _ in range(2)]
            for q in range(1, pdeg + 1):
                kv[q] = lo_w * frac[0][q - 1] / 16.0
                kv[-q - 1] = 1.0 - hi_w * frac[1][q - 1] / 16.0
        lv.caller_args = [("knots", kv)]
        lv.unclamped = bool(op.get("unclamped")) if nd == 1 else (bool(op.get("unclamped")) or getattr(lv, "unclamped_dirs", set()) - {d} != set())
        if nd > 1:
            ud = set(getattr(lv, "unclamped_dirs", set()))
            (ud.add if op.get("unclamped") else ud.discard)(d)
            lv.unclamped_dirs = ud
            lv.unclamped = bool(ud)
        if nd == 1:
            obj.knotvector = kv
        else:
            setattr(obj, "knotvector_" + shapes.SUFFIX[d], kv)
        return "ok"
    if e == "redefine":
        spec = shapes.gen_shape(rng, kind=lv.kind, rational=lv.rational, dim=lv.dim, max_size=6, max_degree=3)
        shapes.define(obj, spec["degrees"], spec["sizes"], shapes.spec_ctrlptsw(spec), spec["knots"])
        lv.undefined = False
        lv.unclamped, lv.unclamped_dirs = False, set()
        return "ok"
    if e == "set_delta":
        if op["single"] and nd > 1:
            setattr(obj, "delta_" + shapes.SUFFIX[op["dir"] % nd], op["value"])
        else:
            obj.delta = op["value"]
        return "ok"
    if e == "set_sample":
        if op["single"] and nd > 1:
            setattr(obj, "sample_size_" + shapes.SUFFIX[op["dir"] % nd], op["value"])
        else:
            obj.sample_size = op["value"]
        return "ok"
    if e in ("insert", "remove"):
        d = op["dir"] % nd
        dfn = shapes.definition(obj)
        kv, p = dfn["knots"][d], dfn["degrees"][d]
        interior = sorted(set(kv[p + 1:len(kv) - p - 1]))
        if op["at"][0] == "knot":
            if not interior:
                return "skip"
            u = interior[op["at"][1] % len(interior)]
        else:
            u = op["at"][1] / 128.0
        s = sum(1 for k in kv if k == u)
        if e == "insert":
            num = min(op["num"], p - s)
        else:
            num = min(op["num"], s)
            if sizes[d] - num < p + 1:
                return "skip"
        if num < 1:
            return "skip"
        params = [None] * nd
        nums = [0] * nd
        params[d], nums[d] = u, num
        if op["via"] == "operations":
            fn = g.operations.insert_knot if e == "insert" else g.operations.remove_knot
            fn(obj, params, nums)
        else:
            m = obj.insert_knot if e == "insert" else obj.remove_knot
            if nd == 1:
                m(u, num=num)
            else:
                m(**{shapes.SUFFIX[d]: u, "num_" + shapes.SUFFIX[d]: num})
        return "ok"
    if e == "refine":
        dens = [0] * nd
        dens[op["dir"] % nd] = 1
        if max(sizes) > 8:
            return "skip"
        g.operations.refine_knotvector(obj, dens)
        return "ok"
    if e == "degree_op":
        # degree elevation / reduction edits degree, knot vector and control points of a curve in place
        if nd != 1 or max(sizes) > 7:
            return "skip"
        degs = shapes.definition(obj)["degrees"]
        up = (op["seed"] % 3 != 0) or degs[0] < 2
        if up and degs[0] >= 4:
            return "skip"
        g.operations.degree_operations(obj, [1 if up else -1])
        return "ok"
    if e == "set_tessellator":
        if nd != 2:
            return "skip"
        if op.get("plug_back") and getattr(lv, "old_tessellators", None):
            # the caller plugs a component back in that the surface used EARLIER (and that still holds the mesh of that time)
            obj.tessellator = lv.old_tessellators[-1]
            world.ctx.probe("earlier_tessellator_plugged_back")
        else:
            lv.old_tessellators = getattr(lv, "old_tessellators", []) + [obj.tessellator]
            obj.tessellator = g.tessellate.TriangularTessellate()     # same algorithm as a fresh surface uses, new (empty) component
        return "ok"
    if e == "reverse":
        if nd != 1:
            return "skip"
        obj.reverse()
        return "ok"
    if e == "transpose":
        if nd != 2:
            return "skip"
        if op["via"] == "method":
            obj.transpose()
        else:
            g.operations.transpose(obj, inplace=True)
        return "ok"
    if e == "flip":
        if nd != 2:
            return "skip"
        g.operations.flip(obj, inplace=True)
        return "ok"
    if e == "translate":
        g.operations.translate(obj, op["vec"][:lv.dim], inplace=True)
        return "ok"
    if e == "rotate":
        g.operations.rotate(obj, op["angle"], axis=op["axis"] if lv.dim == 3 else 2, inplace=True)
        return "ok"
    if e == "scale":
        g.operations.scale(obj, op["mult"], inplace=True)
        return "ok"
    if e in ("deepcopy", "transform_copy"):
        if len(world.objs) >= 6:
            return "skip"
        if e == "deepcopy":
            c = copy.deepcopy(obj)
        elif op["how"] == "translate":
            c = g.operations.translate(obj, op["vec"][:lv.dim])
        elif op["how"] == "scale":
            c = g.operations.scale(obj, op["mult"])
        elif op["how"] == "decompose":
            # another out-of-place operation: the Bezier pieces are new objects (also when the shape is a single piece already);
            # one of them joins the world and is edited by later steps - its source must not change with it
            if lv.nd > 2 or getattr(lv, "unclamped", False):
                return "skip"
            pieces = g.operations.decompose_curve(obj) if lv.nd == 1 else g.operations.decompose_surface(obj)
            c = pieces[op.get("piece", 0) % len(pieces)]
            if len(pieces) == 1:
                world.ctx.probe("decompose_single_piece")
        else:
            c = g.operations.rotate(obj, op["angle"], axis=2)
        nl = Live(c, lv.kind, lv.rational, lv.dim)
        nl.unclamped, nl.unclamped_dirs = getattr(lv, "unclamped", False), set(getattr(lv, "unclamped_dirs", set()))
        return ("new", nl)
    raise KeyError(e)


def _apply_reject(world, lv, op, rng):
    g = shapes.G
    obj = lv.obj
    nd = lv.nd
    w = op["what"]
    dfn = shapes.definition(obj)
    sizes = dfn["sizes"]
    n = 1
    for s in sizes:
        n *= s
    if w == "bad_delta":
        bad = rng.pick([0.0, 1.0, 1.5, -0.25])
        if nd > 1 and rng.chance(0.6):
            # one valid and one invalid component: a partially applied edit must not leave derived data behind
            vals = [rng.pick([0.5, 0.25, 0.2, 0.125]) for _ in range(nd)]
            vals[rng.randrange(nd)] = bad
            obj.delta = tuple(vals)
        else:
            obj.delta = bad
    elif w == "bad_sample":
        if nd == 1:
            obj.sample_size = 2.5
        else:
            setattr(obj, "sample_size_" + shapes.SUFFIX[op["dir"] % nd], 2.5)
    elif w == "bad_knots":
        d = op["dir"] % nd
        kv = list(dfn["knots"][d])
        if rng.chance(0.5):
            kv = kv[:-1]
        else:
            kv[len(kv) // 2], kv[0] = kv[0], 0.75
            kv[1] = 0.9
        if nd == 1:
            obj.knotvector = kv
        else:
            setattr(obj, "knotvector_" + shapes.SUFFIX[d], kv)
    elif w == "bad_point":
        P = _new_points(rng, n, lv.dim + (1 if lv.rational else 0))
        P[rng.randrange(n)] = [1.0]
        obj.set_ctrlpts(P, *sizes)
    elif w == "bad_weights":
        if not lv.rational:
            return "skip"
        obj.weights = [1.0] * (n + 1)
    elif w == "bad_insert":
        d = op["dir"] % nd
        kv, p = dfn["knots"][d], dfn["degrees"][d]
        interior = sorted(set(kv[p + 1:len(kv) - p - 1]))
        u = interior[op["seed"] % len(interior)] if interior else 0.5
        s = sum(1 for k in kv if k == u)
        params = [None] * nd
        nums = [0] * nd
        params[d], nums[d] = u, p - s + 1
        g.operations.insert_knot(obj, params, nums)
    return "ok"


def _check_reads(ctx, lv, idx_obj, views, param, when):
    """Read the views from the live object and compare with the twin's."""
    sig = dict(kind=lv.kind, rational=lv.rational)
    tw = _twin(lv)
    if tw is None:
        lv.undefined = True
        ctx.probe("object_left_undefined")
        return
    for view in views:
        try:
            app, got = get_view(lv.obj, view, param)
        except Exception as e:
            # the twin must fail the same way, otherwise the live object is in a state a fresh one is not
            try:
                app2, exp = get_view(tw, view, param)
            except Exception:
                ctx.log("read_raised_both", view)
                continue
            ctx.fail("stale_view", "%s: reading '%s' raised %r on the live object but works on a freshly built object with the "
                     "same public definition" % (when, view, e), view=view, **sig)
        if not app:
            continue
        app2, exp = get_view(tw, view, param)
        ctx.log("read", idx_obj, view, len(got) if isinstance(got, list) else 0)
        _compare(ctx, "%s, %s %s object #%d" % (when, "rational" if lv.rational else "non-rational", lv.kind, idx_obj), view, got, exp, sig)
        if view == "evalpts":
            # a twin lives in the same process and would share a poisoned process-wide memo with the live object: the sampled
            # points are also compared with the independent reference model
            ref = _model_evalpts(lv.obj)
            if ref is not None:
                ok, why = close(got, ref, 1e-8)
                ctx.probe("evalpts_checked_against_reference_model")
                if not ok:
                    ctx.fail("stale_view", "%s, %s %s object #%d: evalpts differ from the shape its public definition describes (reference model; "
                             "a freshly built twin agrees with the live object, so the stale state is process-wide): %s" % (
                                 when, "rational" if lv.rational else "non-rational", lv.kind, idx_obj, why), view="evalpts:model", **sig)
        if view in CACHED_VIEWS:
            if lv.edited_warm:
                ctx.nontrivial = True
                ctx.probe("read_after_edit_of_warm_object")
            lv.warm.add(view)
    ctx.state("%s:%s:%s" % (lv.kind, lv.rational, ",".join(sorted(lv.warm))))


def _check_container(ctx, world, ci, views, when):
    g = shapes.G
    c = world.conts[ci]
    cont = c["obj"]
    members = [world.objs[i] for i in c["members"]]
    if any(m.undefined for m in members):
        return
    twins = []
    for m in members:
        t = _twin(m)
        if t is None:
            m.undefined = True
            ctx.probe("object_left_undefined")
            return
        twins.append(t)
    fresh = cont.__class__()
    fresh.delta = cont.delta if c["kind"] == "curve" else list(cont.delta)
    for t in twins:
        fresh.add(t)
    sig = dict(kind="container:" + c["kind"], rational="-")
    for view in views:
        if view in ("vertices", "faces") and (c["kind"] != "surface" or not members):
            continue
        if view == "bbox" and not members:
            continue

        def read(k_):
            if view == "evalpts":
                return [list(p) for p in k_.evalpts]
            if view == "vertices":
                return [[v.id, list(v.uv), list(v.data)] for v in k_.vertices]
            if view == "faces":
                return [[f.id] + list(f.vertex_ids) for f in k_.faces]
            return [list(p) for p in k_.bbox]
        try:
            got = read(cont)
        except Exception as e:
            # a container of freshly built elements must fail the same way, otherwise the live container is in a state a fresh one is not
            try:
                read(fresh)
            except Exception:
                ctx.log("cread_raised_both", ci, view)
                continue
            ctx.fail("stale_view", "%s: reading '%s' of %s container #%d raised %r but works on a container of freshly built elements" % (
                when, view, c["kind"], ci, e), view="container." + view, **sig)
        exp = read(fresh)
        ctx.log("cread", ci, view, len(got))
        _compare(ctx, "%s, %s container #%d with members %r" % (when, c["kind"], ci, c["members"]), "container." + view, got, exp, sig)
        if c["edited_warm"]:
            ctx.nontrivial = True
            ctx.probe("container_read_after_edit_of_warm_container")
        c["warm"].add(view)


def _container_copy_probe(ctx, world, ci, op):
    """Deep copies are independent - for containers too: the copy is a usable container of copies; editing it (adding an
    element, changing its sampling, editing one of its elements) never changes the original."""
    c = world.conts[ci]
    cont = c["obj"]
    sig = dict(kind="container:" + c["kind"], rational="-")
    before = [_prim(world.objs[m]) for m in c["members"]]
    n_before = len(cont)
    try:
        dup = copy.deepcopy(cont)
        extra = _twin(world.objs[c["members"][0]])
        dup.add(extra)
        dup.delta = 0.5 if c["kind"] == "curve" else [0.5] * {"surface": 2, "volume": 3}[c["kind"]]
        first = dup[0]
        pts = first.ctrlptsw if first.rational else first.ctrlpts
        moved = [[x + 1.0 for x in p] for p in pts]
        sizes = shapes.definition(first)["sizes"]
        first.set_ctrlpts(moved, *sizes)
        got = [list(p) for p in dup.evalpts]
    except Exception as e:
        ctx.fail("copy_unusable", "a deep copy of a %s container with %d element(s) cannot be used like a container: %r" % (c["kind"], n_before, e),
                 view="container.deepcopy", **sig)
    if len(cont) != n_before or len(dup) != n_before + 1:
        ctx.fail("copy_not_independent", "adding to a deep copy of a container changed the original (%d -> %d elements, copy has %d)" % (
            n_before, len(cont), len(dup)), op="ccopy", kind="container:" + c["kind"], rational="-")
    after = [_prim(world.objs[m]) for m in c["members"]]
    for m, b, a in zip(c["members"], before, after):
        # the probe sets the copy's delta, which the copy pushes into ITS elements only
        if b != a:
            ctx.fail("copy_not_independent", "editing a deep copy of a container changed element #%d of the original" % m,
                     op="ccopy", kind="container:" + c["kind"], rational="-")
    fresh = cont.__class__()
    fresh.delta = dup.delta if c["kind"] == "curve" else list(dup.delta)
    for e in dup:
        fresh.add(shapes.twin(e))
    exp = [list(p) for p in fresh.evalpts]
    _compare(ctx, "deep copy of %s container #%d after add / delta / element edit" % (c["kind"], ci), "container.evalpts", got, exp, sig)
    ctx.log("ccopy", ci, len(dup))
    ctx.probe("container_deepcopy_checked")


def _mark_edit(world, i, lv):
    if lv.warm:
        lv.edited_warm = True
    lv.warm = set()
    for c in world.conts:
        if i in c["members"] and c["warm"]:
            c["edited_warm"] = True
            world.ctx.probe("element_edit_while_container_cache_warm")


def run(script, ctx):
    g = shapes.G.load()
    simpool.configure(h64(script.get("seed", 0), script.get("run", 0), "pool"), "default", [], ctx)
    world = World(script, ctx)
    ctx.log("built", [(lv.kind, lv.rational) for lv in world.objs], len(world.conts))
    for idx, op in enumerate(script["ops"]):
        ctx.step = idx
        k = op["op"]
        targeted = set()
        if k == "cache_clear":
            for mod, names in ((g.helpers, ("knot_insertion_alpha", "knot_removal_alpha_i", "knot_removal_alpha_j")),
                               (g.linalg, ("binomial_coefficient",))):
                for name in names:
                    fn = getattr(mod, name, None)
                    if fn is not None and hasattr(fn, "cache_clear"):
                        fn.cache_clear()
            ctx.fault("memo_evict")
            ctx.ops_executed += 1
            continue
        i, lv = world.pick(op.get("obj", 0))
        if lv is None:
            ctx.ops_skipped += 1
            continue

        if k == "read":
            if lv.undefined:
                ctx.ops_skipped += 1
                continue
            _check_reads(ctx, lv, i, op["views"], op["param"][:lv.nd], "step %d read" % idx)
            ctx.ops_executed += 1
            targeted.add(i)   # evaluate/tessellate may legitimately touch nothing primary, but keep it simple

        elif k in ("cadd", "cdelta", "csample", "cread", "ctess", "ccopy"):
            if not world.conts:
                ctx.ops_skipped += 1
                continue
            ci = op["cont"] % len(world.conts)
            c = world.conts[ci]
            cont = c["obj"]
            if k == "cadd":
                if lv.kind != c["kind"] or i in c["members"] or lv.undefined or len(c["members"]) >= 4:
                    ctx.ops_skipped += 1
                    continue
                if c["members"] and world.objs[c["members"][0]].dim != lv.dim:
                    ctx.ops_skipped += 1
                    continue
                cont.add(lv.obj)
                c["members"].append(i)
                if c["warm"]:
                    c["edited_warm"] = True
                c["warm"] = set()
                ctx.log("cadd", ci, i)
            elif k == "ccopy":
                if not c["members"] or any(world.objs[m].undefined for m in c["members"]):
                    ctx.ops_skipped += 1
                    continue
                _container_copy_probe(ctx, world, ci, op)
            elif k == "ctess":
                if c["kind"] != "surface" or not c["members"] or any(world.objs[m].undefined for m in c["members"]):
                    ctx.ops_skipped += 1
                    continue
                kw = {"force": op["force"], "delta": op["delta"]}
                if op["num_procs"] > 1:
                    kw["num_procs"] = op["num_procs"]
                    ctx.probe("container_tessellate_on_simulated_pool")
                cont.tessellate(**kw)
                ctx.log("ctess", ci, op["num_procs"], op["force"], op["delta"])
                for m in c["members"]:
                    targeted.add(m)
                    _mark_edit_density(world.objs[m])
            elif k in ("cdelta", "csample"):
                if k == "cdelta":
                    cont.delta = op["value"]
                else:
                    cont.sample_size = op["value"]
                if c["warm"]:
                    c["edited_warm"] = True
                c["warm"] = set()
                ctx.log(k, ci, op["value"])
            else:
                _check_container(ctx, world, ci, op["views"], "step %d container read" % idx)
                for m in c["members"]:
                    targeted.add(m)      # container.evalpts pushes its delta into the elements (a public side effect)
                    _mark_edit_density(world.objs[m])
            ctx.ops_executed += 1

        elif k == "reject":
            if lv.undefined:
                ctx.ops_skipped += 1
                continue
            rng = Rng(op["seed"], "reject")
            outcome = None
            try:
                r = _apply_reject(world, lv, op, rng)
                if r == "skip":
                    ctx.ops_skipped += 1
                    continue
            except Exception as e:
                outcome = type(e).__name__
            ctx.fault("rejected_edit:" + op["what"])
            ctx.log("reject", i, op["what"], outcome)
            if lv.warm:
                ctx.probe("rejected_edit_while_cache_warm")
            ctx.ops_executed += 1
            targeted.add(i)
            if _twin(lv) is None:
                lv.undefined = True
                ctx.probe("object_left_undefined")
            # NOTE: warm set is kept - after a failed edit the caches may legitimately survive or be dropped, the
            # invariant derived = f(primary) is checked by the next read either way
            if lv.warm:
                lv.edited_warm = True

        elif k == "subeval":
            # the sampled points of PART of the domain (documented evaluate(start=..., stop=...)): every other view stays what a
            # fresh object reports - in particular the mesh, which describes the whole surface whatever was sampled last; a full
            # evaluate() afterwards puts the object back into its ordinary state
            if lv.undefined or getattr(lv, "unclamped", False):
                ctx.ops_skipped += 1
                continue
            tw = _twin(lv)
            if tw is None:
                ctx.ops_skipped += 1
                continue
            dm = lv.obj.domain
            dm = [dm] if lv.nd == 1 else list(dm)
            kw = {}
            prm = op.get("param") or [0.25, 0.5, 0.25]
            for d in range(lv.nd):
                sfx = "" if lv.nd == 1 else "_" + shapes.SUFFIX[d]
                lo_, hi_ = dm[d]
                kw["start" + sfx] = lo_ + (hi_ - lo_) * 0.25 * (op["seed"] % 3)
                kw["stop" + sfx] = lo_ + (hi_ - lo_) * (0.75 + 0.25 * ((op["seed"] // 3) % 2))
            lv.obj.evaluate(**kw)
            ctx.log("subeval", i, sorted(kw.items()))
            ctx.ops_executed += 1
            ctx.probe("partial_domain_evaluation")
            sig_ = dict(kind=lv.kind, rational=lv.rational)
            for view in ("vertices", "faces", "bbox", "ctrlpts", "evaluate_single"):
                app, got = get_view(lv.obj, view, [0.5, 0.25, 0.75][:lv.nd])
                if not app:
                    continue
                app2, exp = get_view(tw, view, [0.5, 0.25, 0.75][:lv.nd])
                _compare(ctx, "step %d, after a partial-domain evaluate(%r) of %s object #%d" % (idx, sorted(kw.items()), lv.kind, i), view, got, exp, sig_)
            lv.obj.evaluate()
            ref = _model_evalpts(lv.obj)
            if ref is not None:
                ok, why = close([list(q) for q in lv.obj.evalpts], ref, 1e-8)
                if not ok:
                    ctx.fail("stale_view", "step %d: a full evaluate() after a partial-domain evaluate() does not give the sampled points of the whole "
                             "domain: %s" % (idx, why), view="evalpts:model", **sig_)

        elif k == "scribble":
            # NOT a library call: the caller goes on using the list it handed to a setter earlier (adjusts a knot, a coordinate,
            # a weight to build its next object from it). The object holds its own data; nothing about it may change.
            args = getattr(lv, "caller_args", None)
            if not args:
                ctx.ops_skipped += 1
                continue
            for what_, lst in args:
                if what_ == "knots":
                    for q in range(1, len(lst) - 1):
                        if lst[q - 1] < lst[q] < lst[q + 1]:
                            lst[q] = (lst[q] + lst[q + 1]) / 2.0
                            break
                    else:
                        lst.append(lst[-1])
                elif what_ == "weights":
                    lst[0] = lst[0] * 2.0
                    lst.reverse()
                else:
                    lst[0][0] = lst[0][0] + 1.0
                    lst[-1] = [c * 0.5 for c in lst[-1]]
            lv.caller_args = None
            ctx.log("scribble", i, [a for a, _ in args])
            ctx.ops_executed += 1
            ctx.probe("caller_reused_its_argument_list_after_the_setter")
            ctx.fault("caller_scribbles_over_passed_argument")

        else:
            if lv.undefined and k != "redefine":
                ctx.ops_skipped += 1
                continue
            rng = Rng(op["seed"], "edit")
            try:
                r = _apply_edit(world, lv, op, rng)
            except Exception as e:
                ctx.fault("edit_raised")
                ctx.extra["edit_raised:%s:%s" % (k, type(e).__name__)] = ctx.extra.get("edit_raised:%s:%s" % (k, type(e).__name__), 0) + 1
                ctx.log("edit_raised", i, k, type(e).__name__)
                ctx.ops_executed += 1
                targeted.add(i)
                if _twin(lv) is None:
                    lv.undefined = True
                    ctx.probe("object_left_undefined")
                if lv.warm:
                    lv.edited_warm = True
                r = None
            if r == "skip":
                ctx.ops_skipped += 1
                continue
            if r is not None:
                ctx.ops_executed += 1
                if isinstance(r, tuple):
                    nl = r[1]
                    nl.pair = i
                    world.objs.append(nl)
                    nl.prim = _prim(nl)
                    targeted.add(len(world.objs) - 1)
                    ctx.probe("copy_created")
                    ctx.log("copy", i, k)
                else:
                    ctx.extra["edit_ok:" + k] = ctx.extra.get("edit_ok:" + k, 0) + 1
                    ctx.log("edit", i, k)
                    _mark_edit(world, i, lv)
                    targeted.add(i)

        # ---- after every step: primary definitions of untargeted objects must be unchanged
        for j, other in enumerate(world.objs):
            p = _prim(other)
            if j in targeted:
                other.prim = p
                continue
            if other.prim is not None and p != other.prim:
                if k == "scribble":
                    ctx.fail("argument_aliased", "step %d: the caller modified a list it had passed to a setter of object #%s earlier - the primary "
                             "definition of object #%d changed with it (the object does not hold its own data)" % (idx, i, j),
                             op=k, kind=other.kind, rational=other.rational)
                related = (other.pair == i) or (lv is not None and lv.pair == j)
                ctx.fail("copy_not_independent" if related else "cross_object_leak",
                         "step %d (%s on object #%s) changed the primary definition of object #%d (%s)" % (
                             idx, k, i, j, "its copy/source" if related else "an unrelated object"),
                         op=k, kind=other.kind, rational=other.rational)

    # ---- end of run: every view of every live object, every container
    ctx.step = len(script["ops"])
    for i, lv in enumerate(world.objs):
        if lv.undefined:
            continue
        _check_reads(ctx, lv, i, VIEWS_ALL, [0.5, 0.25, 0.75][:lv.nd], "final sweep")
    for ci in range(len(world.conts)):
        _check_container(ctx, world, ci, ["evalpts", "bbox", "vertices", "faces"], "final sweep")


def _mark_edit_density(lv):
    # the container pushed its delta into the element: evalpts/vertices caches of the element must follow
    if lv.warm & {"evalpts", "vertices", "faces"}:
        lv.edited_warm = True
    lv.warm -= {"evalpts", "vertices", "faces"}
