"""C14 - export followed by import reproduces the geometry, at any later time and in any later process.

World: up to 4 live shapes, containers built on the fly, a simulated disk (SimDisk) and a restartable
process.  A run is a seeded history of exports (JSON, smesh, vmesh, txt 1-D/2-D, CSV; single shapes and
containers; overwrites), edits between export and import (the disk then holds an older acknowledged
version), imports (single file and directory), restarts (every object and memo lost, geomdl purged and
re-imported under another GEOMDL_CACHE_SIZE, only the disk survives) and injected I/O faults placed inside
the export/import calls (open/write/close/read errors, process crash at the k-th file-system call).

Model: per path the *acknowledged snapshot* = the script-level definition of what was exported by the last
export that returned normally with no fault injected into it; paths touched by a faulted export are
indeterminate.  Oracle: every acknowledged path reads back - through the library importer and through
independent format readers - to exactly the snapshot (up to printed precision), and evaluates to the
same points as the reference spline model.  Nothing is asserted about a faulted call itself.
"""
import builtins
import json
import os
import sys

from sim import shapes, refmodel as R
from sim.core import Rng, SimCrash, Violation, close, h64
from sim import disk as simdisk

PROPS = ["C14"]
BUDGET = {"C14": {"quick": {"runs": 6000, "wall_cap_s": 150}, "thorough": {"runs": 100000, "wall_cap_s": 1800}}}
RULE = {"C14": "one case = one seeded history (3-25 steps) of exports, edits, imports, restarts and injected I/O faults over up to 4 "
               "shapes on a simulated disk; non-trivial = an acknowledged export is followed by a restart or by an "
               "overwrite-after-failure and then by an import of that path (durability across a process boundary or across a "
               "failed write); distinct = distinct operation-list digest"}
ASSUMPTIONS = {"C14": [
    "formats: JSON (curves, surfaces, volumes, containers, sampling delta, spline/freeform/container trims), smesh, vmesh, txt 1-D/2-D with "
    "seeded separators, CSV of control points; cfg/yaml need libconf/ruamel.yaml which are not installed - out of scope",
    "crash model = process crash with the kernel surviving (geomdl never fsyncs; under a power-loss model no export could ever be acknowledged)",
    "a path is acknowledged only if its export returned normally and no fault was injected into that call; nothing is asserted about the "
    "faulted call itself or about importing an indeterminate path (outcomes are counted)",
    "comparison tolerance 1e-9 relative (the formats print 17-18 significant digits; rational points are divided and re-multiplied by the weight)",
    "shapes: clamped normalised, sizes pairwise different per direction, 3-D for surfaces/volumes (smesh/vmesh require it)"]}
COMPONENTS = {"real": ["geomdl.exchange / _exchange / compatibility / multi (working tree)", "json module", "module purge + re-import = restart"],
              "stub": ["file system and directory listing: SimDisk (in-memory, buffered handles, fault injection, shuffled listdir)",
                       "process crash: SimCrash unwinding + abandoned handles + restart"]}

TOL = 1e-9
FMT_EXT = {"json": ".json", "smesh": ".dat", "vmesh": ".dat", "txt": ".txt", "txt2d": ".txt", "csv": ".csv"}


def prepare():
    shapes.G.load()


# ---------------------------------------------------------------------------------------------
# generation

def gen(prop, stream, tier, avoid):
    rng = stream("ops")
    kn = stream("knobs")
    fl = stream("faults")
    knobs = {"cache_size": kn.pick([None, None, "1", "16", "1024"]),
             "bufsize": kn.pick([64, 512, 8192]),
             "fault_p": kn.pick([0.0, 0.0, 0.15, 0.3])}
    nobj = kn.pick([1, 2, 3, 4])
    focus = kn.pick([None, None, "surface", "volume", "curve"])
    objs = []
    for _ in range(nobj):
        kind = focus or rng.weighted([("curve", 3), ("surface", 4), ("volume", 2)])
        spec = shapes.gen_shape(rng, kind=kind, max_size=6 if kind != "volume" else 4, max_degree=3,
                                dim=3 if kind != "curve" else rng.pick([2, 3]))
        nd = shapes.DIRS[kind]
        spec["delta"] = [rng.pick([0.5, 0.25, 0.2, 0.125, 0.1]) for _ in range(nd)]
        if kind == "surface" and rng.chance(0.35) and "trims" not in avoid:
            spec["trims"] = _gen_trims(rng)
        objs.append(spec)
    nops = kn.pick([3, 4, 5, 6, 8, 10, 14, 18, 25] + ([40] if tier == "thorough" else []))
    ops = []
    nrestart = 0
    for _ in range(nops):
        k = rng.weighted([("export", 4), ("import", 4), ("edit", 1.2), ("restart", 0.8 if nrestart < 2 else 0), ("import_dir", 0.8)])
        if k == "export":
            fmt = rng.weighted([("json", 4), ("smesh", 2), ("vmesh", 1.5), ("txt", 1.5), ("txt2d", 1), ("csv", 1)])
            op = {"op": "export", "fmt": fmt, "objs": [rng.randrange(4) for _ in range(rng.pick([1, 1, 1, 2, 3, 4]))],
                  "slot": rng.randrange(3), "sep": rng.pick([",", " ", "\t", ", "]), "col_sep": rng.pick([";", "|"]), "faults": [],
                  "pre": rng.pick([None, None, None, "contains", "next", "break"])}
        elif k == "import":
            op = {"op": "import", "which": rng.randrange(16), "faults": []}
        elif k == "import_dir":
            op = {"op": "import_dir", "which": rng.randrange(8), "faults": []}
        elif k == "edit":
            op = {"op": "edit", "obj": rng.randrange(4), "seed": rng.randrange(1 << 30),
                  "how": rng.pick(["set_ctrlpts", "set_ctrlpts", "weights", "ctrlpts"]),
                  "scribble": rng.chance(0.5)}      # the caller goes on modifying the list it passed (to build its next shape from it)
        else:
            nrestart += 1
            op = {"op": "restart", "cache_size": rng.pick([None, "1", "16", "1024"])}
        if k in ("export", "import", "import_dir") and fl.chance(knobs["fault_p"]) and len([o for o in ops if o.get("faults")]) < 3:
            if k == "export":
                kind = fl.weighted([("open_fails", 1), ("write_fails", 2), ("close_fails", 2.5), ("crash", 2)])
            else:
                kind = fl.weighted([("open_fails", 1), ("read_fails", 2), ("crash", 1)])
            f = {"kind": kind, "nth": fl.randint(1, 4 if kind == "crash" else 2)}
            if kind == "close_fails" and fl.chance(0.6):
                f["nth"] = 1      # the deferred write error of the (usually only) file of the export
            if kind in ("write_fails", "close_fails"):
                f["errno"] = fl.pick([5, 28])      # EIO, ENOSPC
            elif kind == "open_fails":
                f["errno"] = fl.pick([13, 28, 2])  # EACCES, ENOSPC, ENOENT
            op["faults"].append(f)
        ops.append(op)
        if k == "export" and op["faults"] and fl.chance(0.6):
            # motif: the same export is retried after the failure, then that path is imported
            retry = json.loads(json.dumps(op))
            retry["faults"] = []
            ops.append(retry)
            ops.append({"op": "import", "which": "last", "faults": []})
    return {"knobs": knobs, "objects": objs, "ops": ops}


def _gen_trims(rng):
    """Closed trim curves in the parametric square, vertices at odd multiples of 1/128."""
    trims = []
    for _ in range(rng.randint(1, 2)):
        cx, cy = rng.randint(20, 44) * 2 + 1, rng.randint(20, 44) * 2 + 1
        r = rng.randint(4, 9) * 2
        pts = [[(cx - r) / 128.0, (cy - r) / 128.0], [(cx + r) / 128.0, (cy - r) / 128.0],
               [(cx + r) / 128.0, (cy + r) / 128.0], [(cx - r) / 128.0, (cy + r) / 128.0], [(cx - r) / 128.0, (cy - r) / 128.0]]
        kind = rng.pick(["spline", "freeform", "container"])
        trims.append({"type": kind, "points": pts, "reversed": rng.pick([None, 0, 1])})
    return trims


def simplify(script):
    if script["knobs"].get("cache_size") is not None:
        yield dict(script, knobs=dict(script["knobs"], cache_size=None))
    for i, sp in enumerate(script["objects"]):
        if sp.get("trims"):
            sp2 = dict(sp)
            sp2.pop("trims")
            yield dict(script, objects=script["objects"][:i] + [sp2] + script["objects"][i + 1:])
        if sp["rational"]:
            sp2 = dict(sp, rational=False)
            sp2.pop("W", None)
            yield dict(script, objects=script["objects"][:i] + [sp2] + script["objects"][i + 1:])
    for i, op in enumerate(script["ops"]):
        if op["op"] == "export" and len(op["objs"]) > 1:
            for j in range(len(op["objs"])):
                ops = list(script["ops"])
                ops[i] = dict(op, objs=op["objs"][:j] + op["objs"][j + 1:])
                yield dict(script, ops=ops)


def sample_view(script, res):
    return {"run": script["run"], "knobs": script["knobs"],
            "objects": [{"kind": s["kind"], "rational": s["rational"], "sizes": s["sizes"], "trims": len(s.get("trims", []))} for s in script["objects"]],
            "history": script["ops"][:25]}


# ---------------------------------------------------------------------------------------------
# world

def _install_bypass_probe(world):
    real_open = builtins.open
    repo_prefix = os.path.join(os.environ.get("VERIF_REPO", "/repo"), "geomdl")

    def probe_open(file, *a, **kw):
        try:
            fr = sys._getframe(1)
            if fr.f_code.co_filename.startswith(repo_prefix):
                world.bypassed += 1
        except Exception:
            pass
        return real_open(file, *a, **kw)
    builtins.open = probe_open


class World:
    def __init__(self, script, ctx):
        self.ctx = ctx
        self.script = script
        self.disk = simdisk.SimDisk(h64(script.get("seed", 0), script.get("run", 0)), script["knobs"]["bufsize"])
        self.disk.ctx = ctx
        self.bypassed = 0
        self.model_objs = [json.loads(json.dumps(s)) for s in script["objects"]]   # script-level definitions (edited by 'edit')
        self.paths = {}        # path -> {"status", "fmt", "snap": [...], "extra": {...}}
        self.dirs = {}         # dir -> {"status", "fmt", "files": [paths in order]}
        self.order = []        # paths in creation order (for 'which' addressing)
        self.dir_order = []
        self.live = []
        self.restarts = 0
        self.failed_paths = set()
        self.last_export = None
        self.containers = {}
        self.boot()

    def boot(self):
        g = shapes.G.load()
        simdisk.install(self.disk)
        self.containers = {}
        self.live = [self.build(s) for s in self.model_objs]

    def build(self, spec):
        g = shapes.G
        obj = shapes.build(spec)
        nd = shapes.DIRS[spec["kind"]]
        obj.delta = spec["delta"][0] if nd == 1 else tuple(spec["delta"])
        if spec.get("trims"):
            obj.trims = [self.build_trim(t) for t in spec["trims"]]
        return obj

    def build_trim(self, t):
        g = shapes.G
        from geomdl import freeform
        if t["type"] == "spline":
            c = g.BSpline.Curve()
            c.degree = 1
            c.ctrlpts = [list(p) for p in t["points"]]
            n = len(t["points"])
            c.knotvector = [0.0, 0.0] + [i / float(n - 1) for i in range(1, n - 1)] + [1.0, 1.0]
            c.delta = 0.25
        elif t["type"] == "freeform":
            c = freeform.Freeform()
            c.evaluate(points=[list(p) for p in t["points"]])
        else:
            c = g.multi.CurveContainer()
            pts = t["points"]
            for a, b in zip(pts[:-1], pts[1:]):
                seg = g.BSpline.Curve()
                seg.degree = 1
                seg.ctrlpts = [list(a), list(b)]
                seg.knotvector = [0.0, 0.0, 1.0, 1.0]
                seg.delta = 0.5
                c.add(seg)
        if t.get("reversed") is not None:
            c.opt = ["reversed", t["reversed"]]
        return c

    def restart(self, cache_size):
        """The process is gone: every object and memo is lost; geomdl is imported afresh; only the disk survives."""
        self.live = []
        self.disk.crash()
        if cache_size is None:
            os.environ.pop("GEOMDL_CACHE_SIZE", None)
        else:
            os.environ["GEOMDL_CACHE_SIZE"] = cache_size
        for name in [m for m in sys.modules if m == "geomdl" or m.startswith("geomdl.")]:
            del sys.modules[name]
        shapes.G.loaded = False
        self.restarts += 1
        self.boot()


def _snap(spec):
    s = {k: spec[k] for k in ("kind", "rational", "dim", "degrees", "sizes", "knots", "P", "delta")}
    s["W"] = spec.get("W") or [1.0] * len(spec["P"])
    s["trims"] = spec.get("trims") or []
    return json.loads(json.dumps(s))


def _pw(s):
    return [[c * w for c in p] + [w] for p, w in zip(s["P"], s["W"])]


# ---------------------------------------------------------------------------------------------
# independent readers (R5)

def _fail(ctx, cls, msg, **sig):
    ctx.fail(cls, msg, **sig)


def _read_json(ctx, raw, snaps, path, sig):
    try:
        d = json.loads(raw.decode("utf-8"))
    except Exception as e:
        _fail(ctx, "file_layout", "acknowledged file %s is not valid JSON: %r" % (path, e), reader="independent", **sig)
    sh = d.get("shape", {})
    if sh.get("type") != snaps[0]["kind"] or sh.get("count") != len(snaps) or len(sh.get("data", [])) != len(snaps):
        _fail(ctx, "file_layout", "%s: shape.type/count = %r/%r, exported %d %s(s)" % (path, sh.get("type"), sh.get("count"), len(snaps), snaps[0]["kind"]),
              reader="independent", **sig)
    for rec, s in zip(sh["data"], snaps):
        nd = len(s["degrees"])
        suf = [""] if nd == 1 else ["_u", "_v", "_w"][:nd]
        for i, sf in enumerate(suf):
            if rec.get("degree" + sf) != s["degrees"][i]:
                _fail(ctx, "file_content", "%s: degree%s = %r, exported %r" % (path, sf, rec.get("degree" + sf), s["degrees"][i]), reader="independent", **sig)
            ok, why = close(rec.get("knotvector" + sf), s["knots"][i], 1e-12, 1.0)
            if not ok:
                _fail(ctx, "file_content", "%s: knotvector%s differs: %s" % (path, sf, why), reader="independent", **sig)
            if nd > 1 and rec.get("size" + sf) != s["sizes"][i]:
                _fail(ctx, "file_content", "%s: size%s = %r, exported %r" % (path, sf, rec.get("size" + sf), s["sizes"][i]), reader="independent", **sig)
        cp = rec.get("control_points", {})
        ok, why = close(cp.get("points"), s["P"], TOL)
        if not ok:
            _fail(ctx, "file_content", "%s: control_points.points (documented order: v fastest, then u, then w) differ: %s" % (path, why), reader="independent", **sig)
        if s["rational"]:
            ok, why = close(cp.get("weights"), s["W"], TOL)
            if not ok:
                _fail(ctx, "file_content", "%s: control_points.weights differ: %s" % (path, why), reader="independent", **sig)
        dl = rec.get("delta")
        # a single number stands for the same delta in every direction (the importers accept both forms)
        dl_list = [dl] * nd if isinstance(dl, (int, float)) else (list(dl) if isinstance(dl, (list, tuple)) else None)
        ok, why = close(dl_list, s["delta"], 1e-12, 1.0) if dl_list is not None and len(dl_list) == nd else (False, "not a number or a list of %d numbers" % nd)
        if not ok:
            _fail(ctx, "file_content", "%s: delta %r, exported %r" % (path, dl, s["delta"]), reader="independent", **sig)
        if s["trims"]:
            tr = rec.get("trims", {})
            if tr.get("count") != len(s["trims"]) or len(tr.get("data", [])) != len(s["trims"]):
                _fail(ctx, "file_content", "%s: %r trims written, surface has %d" % (path, tr.get("count"), len(s["trims"])), reader="independent", **sig)
            for trec, t in zip(tr["data"], s["trims"]):
                if trec.get("type") != t["type"]:
                    _fail(ctx, "file_content", "%s: trim type %r, exported %r" % (path, trec.get("type"), t["type"]), reader="independent", **sig)
                if t["type"] == "spline":
                    pts = trec["control_points"]["points"]
                elif t["type"] == "freeform":
                    pts = trec["points"]
                else:
                    pts = [seg["control_points"]["points"][0] for seg in trec["data"]] + [trec["data"][-1]["control_points"]["points"][-1]]
                ok, why = close(pts, t["points"], 1e-12, 1.0)
                if not ok:
                    _fail(ctx, "file_content", "%s: trim points differ: %s" % (path, why), reader="independent", **sig)
                if t.get("reversed") is not None and trec.get("reversed") != t["reversed"]:
                    _fail(ctx, "file_content", "%s: trim sense %r, exported %r" % (path, trec.get("reversed"), t["reversed"]), reader="independent", **sig)


def _read_mesh(ctx, raw, s, path, sig):
    nd = len(s["degrees"])
    lines = [ln.split() for ln in raw.decode("utf-8").split("\n")]
    try:
        dim = int(lines[0][0])
        degs = [int(x) for x in lines[1]]
        sizes = [int(x) for x in lines[2]]
        kvs = [[float(x) for x in lines[3 + i]] for i in range(nd)]
        n = 1
        for z in sizes:
            n *= z
        pts = [[float(x) for x in lines[3 + nd + k]] for k in range(n)]
    except Exception as e:
        _fail(ctx, "file_layout", "acknowledged mesh file %s does not parse: %r" % (path, e), reader="independent", **sig)
    if dim != 3 or degs != s["degrees"] or sizes != s["sizes"]:
        _fail(ctx, "file_content", "%s: header dim/degrees/sizes = %r/%r/%r, exported 3/%r/%r" % (path, dim, degs, sizes, s["degrees"], s["sizes"]),
              reader="independent", **sig)
    for i in range(nd):
        ok, why = close(kvs[i], s["knots"][i], 1e-12, 1.0)
        if not ok:
            _fail(ctx, "file_content", "%s: knot vector %d differs: %s" % (path, i, why), reader="independent", **sig)
    # documented order: u-row order (u varies fastest, then v), w-layers one after another; points as (x, y, z, w)
    su, sv = s["sizes"][0], s["sizes"][1]
    sw = s["sizes"][2] if nd == 3 else 1
    exp = []
    for w in range(sw):
        for v in range(sv):
            for u in range(su):
                idx = v + u * sv + w * su * sv
                exp.append(list(s["P"][idx]) + [s["W"][idx]])
    ok, why = close(pts, exp, TOL)
    if not ok:
        _fail(ctx, "file_content", "%s: control points (x y z w, u fastest) differ: %s" % (path, why), reader="independent", **sig)


def _read_text(ctx, raw, s, path, fmt, extra, sig):
    text = raw.decode("utf-8")
    pts = _pw(s) if s["rational"] else s["P"]
    try:
        if fmt == "csv":
            lines = text.strip().split("\n")[1:]
            got = [[float(c) for c in ln.split(",")] for ln in lines]
            exp = pts
        elif fmt == "txt":
            got = [[float(c) for c in ln.strip().split(extra["sep"].strip() or None)] if extra["sep"].strip() else
                   [float(c) for c in ln.split()] for ln in text.strip().split("\n")]
            exp = pts
        else:
            rows = text.strip().split("\n")
            got = []
            for row in rows:
                cells = row.strip().split(extra["col_sep"])
                got.append([[float(c) for c in (cell.split(extra["sep"].strip()) if extra["sep"].strip() else cell.split())] for cell in cells])
            su, sv = s["sizes"]
            exp = [[pts[v + u * sv] for v in range(sv)] for u in range(su)]
    except Exception as e:
        _fail(ctx, "file_layout", "acknowledged text file %s does not parse: %r" % (path, e), reader="independent", **sig)
    ok, why = close(got, exp, 1e-12)
    if not ok:
        _fail(ctx, "file_content", "%s: control points in the file differ from the exported ones (rows = u, columns = v for 2-D): %s" % (path, why),
              reader="independent", **sig)


# ---------------------------------------------------------------------------------------------
# comparing imported objects with snapshots

def _check_imported_shape(ctx, obj, s, path, sig, world):
    nd = len(s["degrees"])
    try:
        d = shapes.definition(obj)
    except Exception as e:
        _fail(ctx, "import_mismatch", "%s: imported object has no readable definition: %r" % (path, e), **sig)
    if d["kind"] != s["kind"]:
        _fail(ctx, "import_mismatch", "%s: imported a %s, exported a %s" % (path, d["kind"], s["kind"]), **sig)
    if d["degrees"] != s["degrees"] or d["sizes"] != s["sizes"]:
        _fail(ctx, "import_mismatch", "%s: degrees/sizes %r/%r, exported %r/%r" % (path, d["degrees"], d["sizes"], s["degrees"], s["sizes"]), **sig)
    for i in range(nd):
        ok, why = close(d["knots"][i], s["knots"][i], 1e-12, 1.0)
        if not ok:
            _fail(ctx, "import_mismatch", "%s: knot vector %d differs after import: %s" % (path, i, why), **sig)
    exp = _pw(s) if d["rational"] else s["P"]
    if not d["rational"] and any(w != 1.0 for w in s["W"]):
        _fail(ctx, "import_mismatch", "%s: imported shape is non-rational but the exported one had weights" % path, **sig)
    ok, why = close(d["ctrlptsw"], exp, TOL)
    if not ok:
        _fail(ctx, "import_mismatch", "%s: control points / weights differ after import: %s" % (path, why), **sig)
    # hence the same points: reference model vs the library's own evaluation of the imported object
    model = R.Spline(s["degrees"], s["knots"], s["sizes"], _pw(s), True, float)
    for prm in ([0.0] * nd, [1.0] * nd, [0.3125, 0.625, 0.8125][:nd]):
        a = model.eval(prm)
        b = list(obj.evaluate_single(prm[0] if nd == 1 else prm))
        ok, why = close(b, a, 1e-8)
        if not ok:
            _fail(ctx, "import_mismatch", "%s: imported shape evaluates to %r at %r, exported shape to %r" % (path, b, prm, a), **sig)


def _check_json_extras(ctx, obj, s, path, sig):
    nd = len(s["degrees"])
    dl = shapes.deltas(obj)
    ok, why = close(dl, s["delta"], 1e-12, 1.0)
    if not ok:
        _fail(ctx, "import_mismatch", "%s: sampling delta %r after import, exported %r" % (path, dl, s["delta"]), **sig)
    if s["kind"] == "surface":
        tr = list(obj.trims)
        if len(tr) != len(s["trims"]):
            _fail(ctx, "import_mismatch", "%s: %d trims after import, exported %d" % (path, len(tr), len(s["trims"])), **sig)
        for tc, t in zip(tr, s["trims"]):
            if t["type"] == "spline":
                pts = [list(p) for p in tc.ctrlpts]
            elif t["type"] == "freeform":
                pts = [list(p) for p in tc.evalpts]
            else:
                segs = list(tc)
                pts = [list(sg.ctrlpts[0]) for sg in segs] + [list(segs[-1].ctrlpts[-1])]
            ok, why = close(pts, t["points"], 1e-12, 1.0)
            if not ok:
                _fail(ctx, "import_mismatch", "%s: trim curve points differ after import: %s" % (path, why), **sig)
            if t.get("reversed") is not None and tc.opt_get("reversed") != t["reversed"]:
                _fail(ctx, "import_mismatch", "%s: trim sense %r after import, exported %r" % (path, tc.opt_get("reversed"), t["reversed"]), **sig)


# ---------------------------------------------------------------------------------------------
# run

def run(script, ctx):
    world = World(script, ctx)
    _install_bypass_probe(world)
    g = shapes.G
    ctx.log("boot", [(s["kind"], s["rational"], s["sizes"]) for s in world.model_objs])
    ack_then_boundary = set()   # acknowledged paths that have since seen a restart or an overwrite-after-failure
    for idx, op in enumerate(script["ops"]):
        ctx.step = idx
        g = shapes.G
        k = op["op"]
        if k == "edit":
            if not world.model_objs:
                ctx.ops_skipped += 1
                continue
            i = op["obj"] % len(world.model_objs)
            spec = world.model_objs[i]
            rng = Rng(op["seed"], "edit")
            how = op.get("how", "set_ctrlpts")
            if how == "weights" and spec["rational"]:
                spec["W"] = shapes.gen_weights(rng, len(spec["P"]), unit_chance=0.05)
                passed = list(spec["W"])
                world.live[i].weights = passed
            elif how == "ctrlpts":
                spec["P"] = shapes.gen_points(rng, len(spec["P"]), spec["dim"])
                passed = [list(q) for q in spec["P"]]
                world.live[i].ctrlpts = passed
            else:
                how = "set_ctrlpts"
                spec["P"] = shapes.gen_points(rng, len(spec["P"]), spec["dim"])
                if spec["rational"]:
                    spec["W"] = shapes.gen_weights(rng, len(spec["P"]))
                passed = shapes.spec_ctrlptsw(spec)
                world.live[i].set_ctrlpts(passed, *spec["sizes"])
            if op.get("scribble"):
                if how == "weights":
                    passed[0] = passed[0] * 2.0
                    passed.reverse()
                else:
                    passed[0][0] = passed[0][0] + 1.0
                    passed[-1] = [c * 0.5 for c in passed[-1]]
                ctx.probe("caller_reused_its_argument_list_after_the_setter")
            ctx.log("edit", i, how, bool(op.get("scribble")))
            ctx.ops_executed += 1
            continue
        if k == "restart":
            world.restart(op["cache_size"])
            for p, m in world.paths.items():
                if m["status"] == "ack":
                    ack_then_boundary.add(p)
            ctx.log("restart", op["cache_size"])
            ctx.probe("restart")
            if sum(1 for m in world.paths.values() if m["status"] == "ack") >= 2:
                ctx.probe("restart_with_ge_2_acknowledged_files")
            ctx.ops_executed += 1
            continue
        if k == "export":
            _do_export(world, ctx, op, idx, ack_then_boundary)
            continue
        if k == "import":
            _do_import(world, ctx, op, idx, ack_then_boundary)
            continue
        if k == "import_dir":
            _do_import_dir(world, ctx, op, idx, ack_then_boundary)
            continue
        ctx.ops_skipped += 1
    ctx.extra["seam_bypassed"] = world.bypassed + world.disk.bypass
    ctx.extra["restarts"] = world.restarts
    ctx.extra["acknowledged_paths"] = sum(1 for m in world.paths.values() if m["status"] == "ack")
    ctx.extra["indeterminate_paths"] = sum(1 for m in world.paths.values() if m["status"] != "ack")


def _container_for(g, kind):
    return {"curve": g.multi.CurveContainer, "surface": g.multi.SurfaceContainer, "volume": g.multi.VolumeContainer}[kind]()


def _do_export(world, ctx, op, idx, ack_then_boundary):
    g = shapes.G
    fmt = op["fmt"]
    n = len(world.model_objs)
    if n == 0:
        ctx.ops_skipped += 1
        return
    sel = []
    for o in op["objs"]:
        i = o % n
        if i not in sel:
            sel.append(i)
    need = {"smesh": "surface", "vmesh": "volume", "txt2d": "surface"}.get(fmt)
    first_kind = need or world.model_objs[sel[0]]["kind"]
    sel = [i for i in sel if world.model_objs[i]["kind"] == first_kind]
    if fmt == "csv":
        sel = [i for i in sel if world.model_objs[i]["kind"] != "volume"]
    if fmt in ("smesh", "vmesh"):
        sel = [i for i in sel if world.model_objs[i]["dim"] == 3]
    if sel and fmt not in ("json", "smesh", "vmesh"):
        sel = sel[:1]
    if len({world.model_objs[i]["dim"] for i in sel}) > 1:
        sel = sel[:1]
    if not sel:
        ctx.ops_skipped += 1
        return
    snaps = [_snap(world.model_objs[i]) for i in sel]
    multi = len(sel) > 1
    sig = dict(fmt=fmt, kind=first_kind, multi=multi)
    if multi and fmt in ("smesh", "vmesh"):
        # (directory names with dots - release.2.1, 2024.10.03 - are ordinary; the numbered mesh files inside carry dots themselves)
        d = "/data/%s_dir%d" % (fmt, op["slot"]) if op["slot"] != 1 else "/data/%s.rel.2.%d" % (fmt, op["slot"])
        world.disk.mkdir(d)
        base = d + "/" + fmt + FMT_EXT[fmt]
        stem, ext = base[:-len(FMT_EXT[fmt])], FMT_EXT[fmt]
        targets = ["%s.%d%s" % (stem, j + 1, ext) for j in range(len(sel))]
        # a directory import reads every file in the directory: stale members of an older, larger export would be picked up too
        for old in [p for p in list(world.disk.files) if p.startswith(d + "/") and p not in targets]:
            del world.disk.files[old]
            world.paths.pop(old, None)
    else:
        base = "/data/%s_%d%s" % (fmt, op["slot"], FMT_EXT[fmt])
        targets = [base]
        d = None
    if multi:
        # containers live as long as the process: the same container object is exported again and again, and is also used
        # in ordinary read-only ways between exports (membership test, peeking at the first element, a search loop with break)
        key = (first_kind, tuple(sel))
        target_obj = world.containers.get(key)
        if target_obj is None:
            target_obj = _container_for(g, first_kind)
            for i in sel:
                target_obj.add(world.live[i])
            world.containers[key] = target_obj
        pre = op.get("pre")
        if pre == "contains":
            _ = world.live[sel[len(sel) // 2]] in target_obj
        elif pre == "next":
            _ = next(iter(target_obj))
        elif pre == "break":
            for elem in target_obj:
                if elem is world.live[sel[0]]:
                    break
        if pre:
            ctx.probe("container_partially_traversed_before_export")
    else:
        target_obj = world.live[sel[0]]
    world.last_export = targets[0]
    world.disk.arm(op.get("faults", []))
    outcome = "returned"
    crashed = False
    try:
        if fmt == "json":
            g.exchange.export_json(target_obj, base)
        elif fmt == "smesh":
            g.exchange.export_smesh(target_obj, base)
        elif fmt == "vmesh":
            g.exchange.export_vmesh(target_obj, base)
        elif fmt == "txt":
            g.exchange.export_txt(target_obj, base, separator=op["sep"])
        elif fmt == "txt2d":
            g.exchange.export_txt(target_obj, base, two_dimensional=True, separator=op["sep"], col_separator=op["col_sep"])
        elif fmt == "csv":
            g.exchange.export_csv(target_obj, base, point_type="ctrlpts")
    except SimCrash:
        outcome = "crash"
        crashed = True
    except Exception as e:
        outcome = "raised:" + type(e).__name__
    fired = list(world.disk.fired)
    world.disk.disarm()
    ctx.log("export", fmt, sel, base, outcome, fired)
    ctx.ops_executed += 1
    # an export that RETURNS NORMALLY is acknowledged - also when an injected write / close error fired underneath it (the error was
    # swallowed somewhere): the caller has no way to know that it should retry, so the file must be complete. Only an export that
    # raised or crashed leaves its paths indeterminate.
    faulted = bool(fired) and outcome != "returned"
    if fired and outcome == "returned":
        ctx.probe("export_returned_normally_although_a_fault_fired")
    extra = {"sep": op["sep"], "col_sep": op["col_sep"]}
    if not faulted and outcome != "returned":
        ctx.fail("export_failed", "fault-free export_%s of %s %r to %s %s" % (fmt, first_kind, [s["sizes"] for s in snaps], base, outcome), **sig)
    if faulted:
        for p in targets:
            world.paths[p] = {"status": "indeterminate", "fmt": fmt, "snap": None, "extra": extra}
            if p not in world.order:
                world.order.append(p)
            world.failed_paths.add(p)
            ack_then_boundary.discard(p)
        if d is not None:
            world.dirs[d] = {"status": "indeterminate", "fmt": fmt, "files": targets}
        ctx.probe("export_hit_by_fault")
        # (i) the in-memory shapes must be unchanged by a failed export - checked on the survivors of a non-crash failure
        if not crashed:
            for i in sel:
                dfn = shapes.definition(world.live[i])
                ok, why = close(dfn["ctrlptsw"], shapes.spec_ctrlptsw(world.model_objs[i]), 1e-12)
                if not ok or dfn["sizes"] != world.model_objs[i]["sizes"]:
                    ctx.fail("failed_export_changed_shape", "a failed export_%s changed the in-memory %s: %s" % (fmt, first_kind, why), **sig)
        else:
            world.restart(os.environ.get("GEOMDL_CACHE_SIZE"))
            for p, m in world.paths.items():
                if m["status"] == "ack":
                    ack_then_boundary.add(p)
            ctx.probe("restart_after_crash")
        return
    # ---- acknowledged
    for j, p in enumerate(targets):
        if p in world.failed_paths:
            ack_then_boundary.add(p)          # overwrite after failure
            world.failed_paths.discard(p)
            ctx.probe("overwrite_after_failed_export")
        else:
            ack_then_boundary.discard(p)
        world.paths[p] = {"status": "ack", "fmt": fmt, "snap": snaps if (fmt == "json") else [snaps[j]], "extra": extra}
        if p not in world.order:
            world.order.append(p)
    if d is not None:
        world.dirs[d] = {"status": "ack", "fmt": fmt, "files": targets}
        if d not in world.dir_order:
            world.dir_order.append(d)
    # independent reader straight away (and again at every later import)
    for p in targets:
        _independent(world, ctx, p, sig)
    ctx.state("export:%s:%s:%s" % (fmt, first_kind, multi))


def _independent(world, ctx, p, sig):
    m = world.paths[p]
    if not world.disk.exists(p):
        ctx.fail("acknowledged_file_missing", "export to %s was acknowledged but the file does not exist on disk" % p, reader="independent", **sig)
    raw = world.disk.read_bytes(p)
    try:
        if m["fmt"] == "json":
            _read_json(ctx, raw, m["snap"], p, sig)
        elif m["fmt"] in ("smesh", "vmesh"):
            _read_mesh(ctx, raw, m["snap"][0], p, sig)
        else:
            _read_text(ctx, raw, m["snap"][0], p, m["fmt"], m["extra"], sig)
    except (Violation, SimCrash):
        raise
    except Exception as e:
        # the independent reader follows the documented layout of the format; a file it cannot walk through does not have it
        ctx.fail("file_layout", "%s (%s): an independent reader of the documented layout cannot read the acknowledged file: %s: %s" % (
            p, m["fmt"], type(e).__name__, e), reader="independent", **sig)
    ctx.probe("independent_reader_checks")


def _do_import(world, ctx, op, idx, ack_then_boundary):
    g = shapes.G
    if not world.order:
        ctx.ops_skipped += 1
        return
    p = world.last_export if (op["which"] == "last" and world.last_export in world.paths) else \
        world.order[(0 if op["which"] == "last" else op["which"]) % len(world.order)]
    m = world.paths.get(p)
    if m is None:
        ctx.ops_skipped += 1
        return
    fmt = m["fmt"]
    sig = dict(fmt=fmt, kind=(m["snap"][0]["kind"] if m["snap"] else "-"), multi=bool(m["snap"] and len(m["snap"]) > 1))
    world.disk.arm(op.get("faults", []))
    res, outcome, crashed = None, "returned", False
    try:
        if fmt == "json":
            res = g.exchange.import_json(p)
        elif fmt == "smesh":
            res = g.exchange.import_smesh(p)
        elif fmt == "vmesh":
            res = g.exchange.import_vmesh(p)
        elif fmt == "txt":
            res = g.exchange.import_txt(p, separator=m["extra"]["sep"])
        elif fmt == "txt2d":
            res = g.exchange.import_txt(p, two_dimensional=True, separator=m["extra"]["sep"], col_separator=m["extra"]["col_sep"])
        elif fmt == "csv":
            res = g.exchange.import_csv(p)
    except SimCrash:
        outcome, crashed = "crash", True
    except Exception as e:
        outcome = "raised:" + type(e).__name__ + ":" + str(e)[:200]
    fired = list(world.disk.fired)
    world.disk.disarm()
    ctx.log("import", fmt, p, m["status"], outcome.split(":")[0], fired)
    ctx.ops_executed += 1
    if crashed:
        world.restart(os.environ.get("GEOMDL_CACHE_SIZE"))
        for q, mm in world.paths.items():
            if mm["status"] == "ack":
                ack_then_boundary.add(q)
        ctx.probe("restart_after_crash")
        return
    if m["status"] != "ack":
        ctx.probe("import_of_indeterminate_path:" + ("returned" if outcome == "returned" else "raised"))
        return
    if outcome != "returned":
        if fired:
            ctx.probe("faulted_import_raised")
            return
        ctx.fail("import_failed", "import_%s of the acknowledged file %s %s" % (fmt, p, outcome), **sig)
    if p in ack_then_boundary:
        ctx.nontrivial = True
        ctx.probe("import_after_restart_or_overwrite_after_failure")
    _independent(world, ctx, p, sig)
    _compare_import(ctx, world, fmt, res, m, p, sig)
    ctx.state("import:%s:%s" % (fmt, sig["kind"]))


def _compare_import(ctx, world, fmt, res, m, p, sig):
    snaps = m["snap"]
    if fmt in ("json", "smesh", "vmesh"):
        if not isinstance(res, (list, tuple)) or len(res) != len(snaps):
            ctx.fail("import_mismatch", "%s: import returned %r shapes, exported %d" % (p, len(res) if hasattr(res, "__len__") else res, len(snaps)), **sig)
        for obj, s in zip(res, snaps):
            _check_imported_shape(ctx, obj, s, p, sig, world)
            if fmt == "json":
                _check_json_extras(ctx, obj, s, p, sig)
    else:
        s = snaps[0]
        exp = _pw(s) if s["rational"] else s["P"]
        if fmt == "txt2d":
            if not (isinstance(res, tuple) and len(res) == 3):
                ctx.fail("import_mismatch", "%s: 2-D text import did not return (points, size_u, size_v)" % p, **sig)
            pts, su, sv = res
            if [su, sv] != s["sizes"]:
                ctx.fail("import_mismatch", "%s: 2-D text import sizes (%r, %r), exported %r" % (p, su, sv, s["sizes"]), **sig)
        else:
            pts = res
        ok, why = close(pts, exp, 1e-12)
        if not ok:
            ctx.fail("import_mismatch", "%s: imported control points differ from the exported ones: %s" % (p, why), **sig)


def _do_import_dir(world, ctx, op, idx, ack_then_boundary):
    g = shapes.G
    if not world.dir_order:
        ctx.ops_skipped += 1
        return
    d = world.dir_order[op["which"] % len(world.dir_order)]
    dm = world.dirs[d]
    fmt = dm["fmt"]
    sig = dict(fmt=fmt, kind="surface" if fmt == "smesh" else "volume", multi=True)
    world.disk.arm(op.get("faults", []))
    res, outcome, crashed = None, "returned", False
    try:
        res = g.exchange.import_smesh(d) if fmt == "smesh" else g.exchange.import_vmesh(d)
    except SimCrash:
        outcome, crashed = "crash", True
    except Exception as e:
        outcome = "raised:" + type(e).__name__ + ":" + str(e)[:200]
    fired = list(world.disk.fired)
    world.disk.disarm()
    ctx.log("import_dir", fmt, d, dm["status"], outcome.split(":")[0], fired)
    ctx.ops_executed += 1
    if crashed:
        world.restart(os.environ.get("GEOMDL_CACHE_SIZE"))
        for q, mm in world.paths.items():
            if mm["status"] == "ack":
                ack_then_boundary.add(q)
        return
    files = dm["files"]
    if dm["status"] != "ack" or any(world.paths.get(f, {}).get("status") != "ack" for f in files):
        ctx.probe("import_of_indeterminate_path:" + ("returned" if outcome == "returned" else "raised"))
        return
    if outcome != "returned":
        if fired:
            ctx.probe("faulted_import_raised")
            return
        ctx.fail("import_failed", "directory import_%s of the acknowledged directory %s %s" % (fmt, d, outcome), **sig)
    if any(f in ack_then_boundary for f in files):
        ctx.nontrivial = True
        ctx.probe("import_after_restart_or_overwrite_after_failure")
    ctx.probe("directory_import_checked")
    if not isinstance(res, (list, tuple)) or len(res) != len(files):
        ctx.fail("import_mismatch", "%s: directory import returned %r shapes, the directory holds %d" % (d, len(res), len(files)), **sig)
    # containers keep their order irrespective of the directory listing order
    for obj, f in zip(res, files):
        _check_imported_shape(ctx, obj, world.paths[f]["snap"][0], f, sig, world)
