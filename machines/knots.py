"""C04 (knot insertion never changes the shape) and C06 (removal of removable knots is exact and inverts
insertion): one engine, two separately judged checks.

World: 1-3 live clamped shapes (curve/surface/volume, rational or not) that interleave, so that the
process-global alpha memos (helpers.knot_insertion_alpha, knot_removal_alpha_i/j) are shared between
different objects.  A run is a seeded history of insertions (method and operations API, one or several
directions, inside a span or on an existing knot), evalpts reads, refinements (C06), removals of knots the
model knows to be removable (C06), rejected insertions, memo evictions, under a seeded GEOMDL_CACHE_SIZE.

Oracle: R1 (definition-based spline model, float; exact Fractions in a seeded tenth of the runs):
after every step the object's *public definition* must describe the original function F0; knot vectors
and sizes follow the specification; after a rejected single-direction insertion every public view is
unchanged; when every removable knot is gone the control net equals the original one.
"""
import copy

from sim import shapes, refmodel as R
from sim.core import Precondition, Rng, Violation, close, h64
from fractions import Fraction as F

PROPS = ["C04", "C06"]
BUDGET = {"C04": {"quick": {"runs": 8000, "wall_cap_s": 150}, "thorough": {"runs": 120000, "wall_cap_s": 1800}},
          "C06": {"quick": {"runs": 8000, "wall_cap_s": 150}, "thorough": {"runs": 120000, "wall_cap_s": 1800}}}
RULE = {
    "C04": "one case = one seeded history (2-16 steps) of knot insertions on 1-3 interleaved live shapes (method and "
           "operations API, single and multi direction, on existing knots and inside spans), evalpts reads, rejected "
           "insertions and memo evictions, in a fresh process under a seeded GEOMDL_CACHE_SIZE; non-trivial = at least "
           "two successful insertions of which one lands on an existing interior knot or follows a read of evalpts on the "
           "same object; distinct = distinct operation-list digest",
    "C06": "one case = one seeded history (2-16 steps) of insertions / refinements followed by removals of knots the model "
           "knows to be removable, interleaved over 1-3 live shapes with evalpts reads and memo evictions; non-trivial = "
           "at least one removal that happens after at least one unrelated intervening operation (an operation on another "
           "knot, direction or object between the insertion and its removal); distinct = distinct operation-list digest"}
ASSUMPTIONS = {
    "C04": ["clamped, normalised knot vectors with knots on the 1/64 grid, inserted parameters on the 1/128 grid, degrees 1-4, "
            "at most 7 control points per direction before insertion (volumes 4), coordinates k/8 in [-16,16], weights k/4 in [0.5,4]",
            "function equality is judged at seeded parameter samples (every distinct knot, span interiors, both domain ends; at "
            "most 30 tensor points per step) with tolerance 1e-7*scale; a clean batch is evidence, not proof",
            "the oracle evaluates public definitions with its own Cox-de Boor definition, never with geomdl's evaluator"],
    "C06": ["as C04; additionally removable knots are those whose current multiplicity exceeds the multiplicity in the original "
            "knot vector (exactly removable in exact arithmetic); a history whose *insertion/refinement* already breaks the shape "
            "is counted as outside the precondition, not as a C06 violation",
            "control-net restoration is compared at 1e-7*scale after all removable knots are gone"]}
COMPONENTS = {"real": ["geomdl BSpline/NURBS objects, operations.insert_knot/remove_knot/refine_knotvector, helpers (working tree)",
                       "functools.lru_cache alpha memos", "process fork per run"],
              "stub": ["none - no pool, disk or clock is involved; the simulator decides history, interleaving of objects, memo "
                       "evictions and cache size"]}

TOL = 1e-7
KNOT_TOL = 10e-8
NEAR_OFFSETS = [2.0 ** -53, -(2.0 ** -53), 2.0 ** -30, -(2.0 ** -30), 2.0 ** -25, -(2.0 ** -25), 5e-17, -5e-17]


# (a, L) of un-normalised knot ranges [a, a + L]; a third of them straddle zero (0.0 is then a legal interior parameter)
AL_PAIRS = [(-2.0, 4.0), (-1.0, 2.0), (-1.0, 4.0), (-2.0, 2.0), (0.0, 1.0), (0.0, 2.0), (1.0, 0.5), (3.5, 1.0), (-2.0, 0.5), (0.0, 4.0),
            (1.0, 2.0), (-0.5, 1.0)]


def prepare():
    shapes.G.load()


# ---------------------------------------------------------------------------------------------
# generation

def gen(prop, stream, tier, avoid):
    rng = stream("ops")
    kn = stream("knobs")
    knobs = {"cache_size": kn.pick([None, None, "1", "16", "1024"]),
             "clear_p": kn.pick([0.0, 0.0, 0.15, 0.4]),
             "exact": kn.chance(0.1),
             "argseq": kn.pick(["list", "list", "tuple"])}      # sequence type the caller uses for params / counts
    nobj = kn.pick([1, 1, 2, 2, 3])
    objs = []
    for _ in range(nobj):
        kind = rng.weighted([("curve", 5), ("surface", 4), ("volume", 1.5)])
        nd_ = shapes.DIRS[kind]
        degs = [rng.pick([1, 2, 2, 3, 3, 4, 4]) if kind == "curve" else rng.pick([1, 2, 2, 3, 3] if kind == "surface" else [1, 2, 2, 3])
                for _ in range(nd_)]
        spec = shapes.gen_shape(rng, kind=kind, max_size=8 if kind == "curve" else (6 if kind == "surface" else 4), degrees=degs)
        if kind == "curve" and rng.chance(0.03):
            # a LONG curve (more control points than CPython's small-integer cache has entries): knots on a 1/4096 grid
            n_big = rng.randint(262, 300)
            dg_ = rng.pick([2, 3])
            spec = {"kind": "curve", "rational": spec["rational"], "dim": spec["dim"], "degrees": [dg_], "sizes": [n_big],
                    "knots": [shapes.gen_knots(rng, dg_, n_big, True, 4096)], "P": shapes.gen_points(rng, n_big, spec["dim"])}
            if spec["rational"]:
                spec["W"] = shapes.gen_weights(rng, n_big)
            spec["big"] = True
        elif rng.chance(0.15):
            # a control point exactly at the origin (zero vector): tests on relative sizes must not divide by it
            spec["P"][rng.randrange(len(spec["P"]))] = [0.0] * spec["dim"]
        spec["delta"] = rng.pick([0.5, 0.25, 0.2]) if kind != "curve" else rng.pick([0.25, 0.125, 0.1])
        if kind != "curve" and rng.chance(0.5):
            spec["deltas"] = [rng.pick([0.5, 0.25, 0.2]) for _ in range(nd_)]      # equal densities mask direction mix-ups
        if rng.chance(0.25) and "unnormalised" not in avoid:
            # knot vectors kept in their original range a + L*[0,1] (normalize_kv=False), a and L dyadic per direction
            spec["aL"] = [list(rng.pick(AL_PAIRS)) for _ in range(nd_)]
            spec["knots"] = [shapes.affine_knots(kv, a, L) for kv, (a, L) in zip(spec["knots"], spec["aL"])]
        if nd_ > 1 and rng.chance(0.12) and "unnormalised" not in avoid:
            # usage: ONE knot vector variable for every direction of a square patch (s.knotvector_u = kv; s.knotvector_v = kv),
            # kept as given (normalize_kv=False)
            dg, sz = degs[0], max(spec["sizes"][0], degs[0] + 1)
            spec = shapes.gen_shape(rng, kind=kind, degrees=[dg] * nd_, sizes=[min(sz, 4 if kind == "volume" else 6)] * nd_)
            spec["delta"] = rng.pick([0.5, 0.25, 0.2])
            aL0 = [rng.pick([0.0, 0.0, -2.0, 1.0]), rng.pick([1.0, 1.0, 2.0, 0.5])]
            spec["aL"] = [list(aL0) for _ in range(nd_)]
            spec["knots"] = [shapes.affine_knots(spec["knots"][0], aL0[0], aL0[1]) for _ in range(nd_)]
            spec["share_dirs"] = True
        if not spec.get("share_dirs") and rng.chance(0.3):
            own = {"curve": ["reverse", "reverse"], "surface": ["transpose", "transpose"], "volume": []}[kind]
            spec["pre"] = sorted(set(rng.sample(own + ["deepcopy", "translate_copy", "container", "subeval"], rng.pick([1, 1, 2]))))
        objs.append(spec)
    if nobj >= 2 and kn.chance(0.2) and "unnormalised" not in avoid:
        # usage: two objects built from the same knot vector variables (same list objects, normalize_kv=False)
        src = kn.randrange(nobj)
        dst = kn.pick([j for j in range(nobj) if j != src])
        a = objs[src]
        if not a.get("aL"):
            a["aL"] = [[0.0, 1.0] for _ in a["degrees"]]
        b = shapes.gen_shape(rng, kind=a["kind"], degrees=list(a["degrees"]), sizes=list(a["sizes"]), dim=a["dim"])
        b["knots"] = [list(kv) for kv in a["knots"]]
        b["aL"] = [list(x) for x in a["aL"]]
        b["delta"] = a["delta"]
        if a.get("share_dirs"):
            b["share_dirs"] = True
        b["share_kv_with"] = src
        objs[dst] = b
    nops = kn.pick([2, 3, 4, 5, 6, 8, 10, 12, 16] + ([24, 32] if tier == "thorough" else []))
    w_ins = kn.uniform(1.0, 3.0)
    w_read = kn.uniform(0.2, 1.0)
    w_rej = kn.uniform(0.0, 0.6) if prop == "C04" else 0.1
    w_rem = kn.uniform(1.0, 3.0) if prop == "C06" else 0.0
    w_ref = kn.uniform(0.0, 0.8) if prop == "C06" and "refine" not in avoid else 0.0
    ops = []
    for _ in range(nops):
        if rng.chance(knobs["clear_p"]):
            ops.append({"op": "cache_clear"})
        o = rng.randrange(nobj)
        nd = shapes.DIRS[objs[o]["kind"]]
        k = rng.weighted([("insert", w_ins), ("read", w_read), ("reject", w_rej), ("remove", w_rem), ("refine", w_ref),
                          ("clone", 0.25 if nobj >= 2 else 0.0), ("subeval", 0.35)])
        if k == "subeval":
            # evaluate(start=..., stop=...) on part of the domain: what it leaves behind must not survive the next modification
            lo_ = [rng.pick([0.0, 0.25, 0.5]) for _ in range(3)]
            ops.append({"op": "subeval", "obj": o, "lo": lo_, "hi": [x + rng.pick([0.25, 0.5]) for x in lo_]})
            continue
        if k == "clone":
            # usage: a second object is built from the getters of the first one (c.ctrlpts = ref.ctrlpts; c.knotvector = ref.knotvector)
            # in the middle of the history, and both are used afterwards
            ops.append({"op": "clone", "obj": o, "into": rng.pick([j for j in range(nobj) if j != o])})
            continue
        if k == "insert":
            ndirs = 1 if rng.chance(0.7) else rng.randint(1, nd)
            dirs = {}
            for d in rng.sample(range(nd), ndirs):
                at = ["knot", rng.randrange(8)] if rng.chance(0.45) else ["new", rng.randint(1, 127)]
                if rng.chance(0.06):
                    at = ["near", rng.randrange(8), rng.randrange(8)]
                elif rng.chance(0.2):
                    at = ["dec", rng.randint(1, 99)]        # a decimal parameter (0.37): not representable, arithmetic is inexact
                elif objs[o].get("aL") and rng.chance(0.3):
                    at = ["zero", at[1] if at[0] == "new" else rng.randint(1, 127)]      # parameter exactly 0.0 where the range straddles zero
                dirs[str(d)] = {"at": at, "num": rng.pick([1, 1, 2, 2, 3, 4])}
            ops.append({"op": "insert", "obj": o, "via": rng.pick(["method", "operations"]), "dirs": dirs})
            if ops[-1]["via"] == "operations" and nd > 1 and rng.chance(0.45):
                # the caller keeps ONE list of insertion counts and selects the directions with the parameter list only
                # (num = [2, 2]; insert_knot(s, [0.3, None], num); insert_knot(s, [None, 0.6], num)); or passes obj.degree
                ops[-1]["held_num"] = rng.pick([1, 1, 2, "degree"])
            if rng.chance(0.12):
                ops[-1]["nocheck"] = True      # check_num=False / check_r=False: "the caller has checked the counts" (they are admissible here)
        elif k == "read":
            ops.append({"op": "read", "obj": o})
        elif k == "reject":
            if nd > 1 and rng.chance(0.4):
                # one call, several directions: at least one admissible, one exceeding its multiplicity (any position)
                ops.append({"op": "reject_multi", "obj": o, "via": rng.pick(["method", "operations"]),
                            "bad_dir": rng.randrange(nd), "excess": rng.pick([1, 1, 2]),
                            "dirs": {str(d): {"at": ["knot", rng.randrange(8)] if rng.chance(0.4) else ["new", rng.randint(1, 127)],
                                              "num": rng.pick([1, 1, 2])} for d in range(nd)}})
            else:
                ops.append({"op": "reject", "obj": o, "via": rng.pick(["method", "operations"]), "dir": rng.randrange(nd),
                            "at": rng.weighted([(["knot", rng.randrange(8)], 5), (["new", rng.randint(1, 127)], 3),
                                                (["end", rng.randrange(2)], 2)]),
                            "excess": rng.pick([1, 1, 2])})
        elif k == "remove" and rng.chance(0.15):
            # a removal request the library has to refuse: more copies than the knot has, or a parameter that is not a knot
            ops.append({"op": "reject_remove", "obj": o, "via": rng.pick(["method", "operations"]), "dir": rng.randrange(nd),
                        "what": rng.pick(["too_many", "not_a_knot"]), "which": rng.randrange(8), "t": (2 * rng.randint(0, 63) + 1) / 256.0})
        elif k == "remove":
            ndirs = 1 if rng.chance(0.75) else rng.randint(1, nd)
            dirs = {}
            for d in rng.sample(range(nd), ndirs):
                dirs[str(d)] = {"which": rng.randrange(8), "num": rng.pick([1, 1, 2, 3, 4])}
                if rng.chance(0.08):
                    dirs[str(d)]["near"] = rng.randrange(8)      # the knot is named with float noise (within the library's knot tolerance)
            ops.append({"op": "remove", "obj": o, "via": rng.pick(["method", "operations"]), "dirs": dirs})
            if ops[-1]["via"] == "operations" and nd > 1 and rng.chance(0.35):
                ops[-1]["held_num"] = rng.pick([1, 1, 2])
            if rng.chance(0.12):
                ops[-1]["nocheck"] = True
        else:
            dens = [0] * nd
            dens[rng.randrange(nd)] = 1
            if rng.chance(0.2):
                dens = [1] * nd
            ops.append({"op": "refine", "obj": o, "density": dens})
    if nobj >= 2 and kn.chance(0.2) and not objs[0].get("share_dirs") and objs[1].get("share_kv_with") is None \
            and not any(sp.get("share_kv_with") == 1 for sp in objs):
        # motif: a second object that looks like the first one to anything keyed on sizes, degrees and positions (same kind, degrees,
        # control net sizes - hence knot vector lengths - and the same insertion parameter and count) but has other knot values
        a = objs[0]
        b = shapes.gen_shape(rng, kind=a["kind"], degrees=list(a["degrees"]), sizes=list(a["sizes"]), dim=a["dim"], rational=a["rational"])
        b["delta"] = a["delta"]
        if a.get("aL"):
            b["aL"] = [list(x) for x in a["aL"]]
            b["knots"] = [shapes.affine_knots(kv, al[0], al[1]) for kv, al in zip(b["knots"], b["aL"])]
        d_ = kn.randrange(shapes.DIRS[a["kind"]])
        if kn.chance(0.6):
            # ... or even the same knot vectors except for ONE interior knot value in that direction (same spans almost everywhere)
            kv_a = list(a["knots"][d_])
            pd_ = a["degrees"][d_]
            inner = sorted(set(kv_a[pd_ + 1:len(kv_a) - pd_ - 1]))
            if inner:
                v_ = kn.pick(inner)
                allv = sorted(set(kv_a))
                nxt = allv[allv.index(v_) + 1]
                nv_ = (v_ + nxt) / 2.0
                b["knots"] = [list(kv) for kv in a["knots"]]
                b["knots"][d_] = [nv_ if x == v_ else x for x in kv_a]
        objs[1] = b
        at_ = ["new", kn.randint(1, 127)]
        r_ = kn.pick([1, 1, 2])
        motif = [{"op": "insert", "obj": 0, "via": kn.pick(["method", "operations"]), "dirs": {str(d_): {"at": at_, "num": r_}}},
                 {"op": "insert", "obj": 1, "via": kn.pick(["method", "operations"]), "dirs": {str(d_): {"at": at_, "num": r_}}}]
        if prop == "C06":
            motif += [{"op": "remove", "obj": 0, "via": kn.pick(["method", "operations"]), "dirs": {str(d_): {"which": 0, "num": r_}}},
                      {"op": "remove", "obj": 1, "via": kn.pick(["method", "operations"]), "dirs": {str(d_): {"which": 0, "num": r_}}}]
        ops = motif + ops
    return {"knobs": knobs, "objects": objs, "ops": ops}


def simplify(script):
    if script["knobs"].get("cache_size") is not None:
        yield dict(script, knobs=dict(script["knobs"], cache_size=None))
    if script["knobs"].get("exact"):
        yield dict(script, knobs=dict(script["knobs"], exact=False))
    # drop unused objects (keep indices stable by replacing the tail only)
    used = {op.get("obj") for op in script["ops"] if "obj" in op}
    if used and max(used) + 1 < len(script["objects"]):
        yield dict(script, objects=script["objects"][:max(used) + 1])
    # non-rational variant of a used object
    for i, sp in enumerate(script["objects"]):
        if sp["rational"] and i in used:
            sp2 = dict(sp, rational=False)
            sp2.pop("W", None)
            objs = list(script["objects"])
            objs[i] = sp2
            yield dict(script, objects=objs)
    for i, sp in enumerate(script["objects"]):
        if sp.get("aL") and i in used:
            sp2 = dict(sp, knots=[[(k - a) / L for k in kv] for kv, (a, L) in zip(sp["knots"], sp["aL"])])
            sp2.pop("aL")
            objs = list(script["objects"])
            objs[i] = sp2
            yield dict(script, objects=objs)
    # single-direction versions of multi-direction ops
    for i, op in enumerate(script["ops"]):
        if op["op"] in ("insert", "remove") and len(op["dirs"]) > 1:
            for d in op["dirs"]:
                ops = list(script["ops"])
                ops[i] = dict(op, dirs={d: op["dirs"][d]})
                yield dict(script, ops=ops)
        if op["op"] in ("insert", "remove"):
            for d, spec in op["dirs"].items():
                if spec["num"] > 1:
                    ops = list(script["ops"])
                    nd_ = dict(op["dirs"])
                    nd_[d] = dict(spec, num=spec["num"] - 1)
                    ops[i] = dict(op, dirs=nd_)
                    yield dict(script, ops=ops)


def sample_view(script, res):
    return {"run": script["run"], "knobs": script["knobs"],
            "objects": [{"kind": s["kind"], "rational": s["rational"], "degrees": s["degrees"], "sizes": s["sizes"],
                         "knots": s["knots"]} for s in script["objects"]],
            "history": script["ops"][:16]}


# ---------------------------------------------------------------------------------------------
# execution

class Live:
    def __init__(self, spec, num, lists=None):
        self.spec = spec
        nd = shapes.DIRS[spec["kind"]]
        if lists is not None:
            # the caller's own knot vector list objects go to the setters (one variable for several directions / objects)
            self.obj = shapes.define_shared(shapes.new_object(spec["kind"], spec["rational"], normalize_kv=False), spec["degrees"],
                                            spec["sizes"], shapes.spec_ctrlptsw(spec), lists)
        else:
            self.obj = shapes.build(spec, normalize_kv=False) if spec.get("aL") else shapes.build(spec)
        self.aL = spec.get("aL") or [[0.0, 1.0]] * nd
        if nd == 1:
            self.obj.delta = spec["delta"]
        else:
            self.obj.delta = tuple(spec.get("deltas") or [spec["delta"]] * nd)
        self.nd = nd
        self.num = num
        self.evalpts_read = False
        self.keepalive = []
        if lists is None and spec.get("pre"):
            # the object has a past before the history starts: it was reversed / transposed / copied / put into a container /
            # evaluated on part of its domain. Whatever shape it has THEN is the original that insertion and removal must preserve.
            g = shapes.G.load()
            for pre in spec["pre"]:
                if pre == "reverse" and nd == 1:
                    self.obj.reverse()
                elif pre == "transpose" and nd == 2:
                    self.obj.transpose()
                elif pre == "deepcopy":
                    self.keepalive.append(self.obj)
                    self.obj = copy.deepcopy(self.obj)
                elif pre == "translate_copy":
                    self.keepalive.append(self.obj)
                    self.obj = g.operations.translate(self.obj, [1.0, -2.0, 0.5][:spec["dim"]])
                elif pre == "container":
                    cont = {1: g.multi.CurveContainer, 2: g.multi.SurfaceContainer, 3: g.multi.VolumeContainer}[nd]()
                    cont.add(self.obj)
                    self.keepalive.append(cont)
                elif pre == "subeval":
                    _ = self.obj.evalpts
                    kw = {}
                    for d in range(nd):
                        sfx = "" if nd == 1 else "_" + shapes.SUFFIX[d]
                        a_, L_ = self.aL[d]
                        kw["start" + sfx], kw["stop" + sfx] = a_ + L_ * 0.25, a_ + L_ * 0.75
                    self.obj.evaluate(**kw)
                    self.evalpts_read = True
                    self.partial = True
            dfn = shapes.definition(self.obj)
            spec = dict(spec, degrees=dfn["degrees"], sizes=dfn["sizes"], knots=dfn["knots"])
            self.F0 = R.Spline(dfn["degrees"], dfn["knots"], dfn["sizes"], dfn["ctrlptsw"], dfn["rational"], num)
            self.orig_net = [list(q) for q in dfn["ctrlptsw"]]
            if spec.get("aL"):
                self.aL = [[kv[0], kv[-1] - kv[0]] for kv in dfn["knots"]]      # (a transposition swaps the ranges with the directions)
        else:
            self.F0 = shapes.model_of_spec(spec, num)
            self.orig_net = shapes.spec_ctrlptsw(spec)
        self.orig_knots = [list(kv) for kv in spec["knots"]]
        self.knots = [list(kv) for kv in spec["knots"]]      # expected knot multisets (sorted)
        self.sizes = list(spec["sizes"])
        self.degrees = list(spec["degrees"])
        self.last_touch = None     # (dir, knot) of the last successful modification
        self.held_nums = {}        # count -> the list object the simulated caller keeps and passes to every call
        self.pending = {}          # (dir, knot) -> True if an unrelated op happened since it became removable
        self.n_insert_ok = 0

    def mult(self, d, u):
        # a parameter within the library's documented multiplicity tolerance (helpers.find_multiplicity, 10e-8) of a knot IS that
        # knot; generated distinct knots are at least 1/512 apart
        return sum(1 for k in self.knots[d] if abs(k - u) <= KNOT_TOL)

    def snap(self, d, u):
        for k in self.knots[d]:
            if abs(k - u) <= KNOT_TOL:
                return k
        return u

    def interior(self, d):
        p = self.degrees[d]
        out = []
        for k in self.knots[d][p + 1:len(self.knots[d]) - p - 1]:
            if not out or out[-1] != k:
                out.append(k)
        return out

    def removable(self, d):
        out = []
        for k in self.interior(d):
            extra = self.mult(d, k) - sum(1 for x in self.orig_knots[d] if x == k)
            if extra > 0:
                out.append((k, extra))
        return out


def _near_offset(code, base):
    """Float noise next to a knot: the library's knot tolerance is ABSOLUTE (10e-8), rounding noise is relative."""
    off = NEAR_OFFSETS[code % len(NEAR_OFFSETS)]
    return off * max(1.0, abs(base)) if abs(off) < 1e-12 else off


def _resolve_at(lv, d, at):
    a, L = lv.aL[d]
    if at[0] == "end":
        # an end of the domain: the clamped end knot has multiplicity degree + 1, nothing can be inserted there
        return (lv.knots[d][0] if at[1] == 0 else lv.knots[d][-1]), True
    if at[0] == "near":
        # a parameter that differs from an existing interior knot by less than the library's knot tolerance (float noise: 1 - 0.7,
        # a value read back from a file, a knot computed twice)
        ik = lv.interior(d)
        if ik:
            base = ik[at[1] % len(ik)]
            u = base + _near_offset(at[2], base)
            if u != base and lv.knots[d][0] < u < lv.knots[d][-1]:
                lv.near_used = True
                return u, True
            return base, True
        return a + L * 0.5, False
    if at[0] == "dec":
        return a + L * (at[1] / 100.0), False
    if at[0] == "zero":
        if lv.knots[d][0] < 0.0 < lv.knots[d][-1]:
            return 0.0, lv.mult(d, 0.0) > 0
        return a + L * (at[1] / 128.0), False
    if at[0] == "knot":
        ik = lv.interior(d)
        if ik:
            return ik[at[1] % len(ik)], True
        return a + L * 0.5, False
    return a + L * (at[1] / 128.0), False


def _sample_points(lv, rng_seed):
    rng = Rng(rng_seed)
    per_dir = []
    for d in range(lv.nd):
        per_dir.append(R.sample_params_1d(lv.knots[d], lv.degrees[d], lv.sizes[d], per_span=2))
    tot = 1
    for p in per_dir:
        tot *= len(p)
    pts = []
    if tot <= 30:
        def rec(d, cur):
            if d == lv.nd:
                pts.append(list(cur))
                return
            for v in per_dir[d]:
                rec(d + 1, cur + [v])
        rec(0, [])
    else:
        for _ in range(30):
            pts.append([rng.pick(p) for p in per_dir])
        pts.append([p[0] for p in per_dir])
        pts.append([p[-1] for p in per_dir])
    return pts


def _check_function(ctx, lv, what, prop, step_sig, seed, as_precondition=False):
    """The object's public definition must describe F0."""
    try:
        cur = shapes.model_of(lv.obj, lv.num)
    except Exception as e:
        if as_precondition:
            raise Precondition("definition unreadable after %s: %r" % (what, e))
        ctx.fail("definition_broken", "after %s the public definition is inconsistent: %r" % (what, e), **step_sig)
    scale = max(1.0, max(abs(float(c)) for p in lv.F0.P for c in p))
    for prm in _sample_points(lv, seed):
        a = [float(x) for x in lv.F0.eval(prm)]
        b = [float(x) for x in cur.eval(prm)]
        ok, why = close(a, b, TOL, scale)
        if not ok:
            msg = ("after %s the shape moved at parameter %r: original %r, now %r (%s)\n  object: %s rational=%s degrees=%r\n"
                   "  original knots %r\n  current knots  %r" % (what, prm, a, b, why, lv.spec["kind"], lv.spec["rational"],
                                                                 lv.degrees, lv.orig_knots, [list(map(float, k)) for k in cur.knots]))
            if as_precondition:
                raise Precondition(msg)
            ctx.fail("shape_changed", msg, **step_sig)


def _check_structure(ctx, lv, what, step_sig):
    d = shapes.definition(lv.obj)
    if list(d["sizes"]) != list(lv.sizes):
        ctx.fail("wrong_size", "after %s control net sizes are %r, specification says %r" % (what, d["sizes"], lv.sizes), **step_sig)
    for i in range(lv.nd):
        # (after an insertion next to a knot the library may store the given value or the knot it identifies it with)
        ok, why = close(d["knots"][i], lv.knots[i], 2 * KNOT_TOL if getattr(lv, "near_used", False) else 1e-12, 1.0)
        if not ok:
            ctx.fail("wrong_knotvector", "after %s knot vector in direction %d is %r, specification says %r (%s)" % (
                what, i, d["knots"][i], lv.knots[i], why), **step_sig)


def _check_evalpts(ctx, lv, what, step_sig, modified=True):
    if modified:
        lv.partial = False        # a modification has to drop whatever was sampled before, also a partial-domain evaluation
    elif getattr(lv, "partial", False):
        return                    # nothing changed: a partial-domain evaluation legitimately stays what it is
    if not lv.evalpts_read:
        return
    got = [list(p) for p in lv.obj.evalpts]
    exp = [list(p) for p in (shapes.twin(lv.obj, normalize_kv=False) if lv.spec.get("aL") else shapes.twin(lv.obj)).evalpts]
    ok, why = close(got, exp, 1e-9)
    if not ok:
        ctx.fail("stale_evalpts", "after %s evalpts differ from a fresh evaluation of the same definition (%s)" % (what, why), **step_sig)
    ctx.probe("evalpts_checked_after_modification")
    # a twin shares the process (and any process-wide memo) with the live object: the sampled points are also compared with the
    # ORIGINAL function evaluated by the reference model on the sample grid (first direction outermost)
    ss = lv.obj.sample_size
    ss = [ss] if lv.nd == 1 else list(ss)
    tot = 1
    for n_ in ss:
        tot *= n_
    if all(n_ >= 2 for n_ in ss) and tot <= 130 and len(got) == tot:
        dom = [(lv.knots[d][lv.degrees[d]], lv.knots[d][-lv.degrees[d] - 1]) for d in range(lv.nd)]
        grids = [[lo + (hi - lo) * x / float(ss[d] - 1) for x in range(ss[d])] for d, (lo, hi) in enumerate(dom)]
        ref = []

        def rec(d, cur):
            if d == lv.nd:
                ref.append([float(x) for x in lv.F0.eval(cur)])
                return
            for v in grids[d]:
                rec(d + 1, cur + [v])
        rec(0, [])
        scale = max(1.0, max(abs(float(c)) for p_ in lv.F0.P for c in p_))
        ok, why = close(got, ref, 1e-8, scale)
        ctx.probe("evalpts_checked_against_reference_model")
        if not ok:
            ctx.fail("stale_evalpts", "after %s evalpts are not the original shape sampled on the %r grid (reference model): %s" % (what, ss, why), **step_sig)


def _views(lv):
    d = shapes.definition(lv.obj)
    v = {"definition": d, "delta": shapes.deltas(lv.obj), "bbox": [list(x) for x in lv.obj.bbox]}
    if lv.evalpts_read:
        v["evalpts"] = [list(p) for p in lv.obj.evalpts]
    return v


ARGSEQ = [list]


def _held_list(lv, held, plan, avail):
    """The caller-held list of counts for this call, or None when the counts it holds are not admissible here.
    plan: [(d, u, r, x)], avail(planitem) -> largest admissible count in that direction."""
    if held is None or lv.nd < 2:
        return None
    if held == "degree":
        if any(avail(p) != lv.degrees[p[0]] for p in plan):
            return None
        lst = lv.obj.degree          # the object's own list, as in insert_knot(s, [0.3, None], s.degree)
        return lst if isinstance(lst, list) else None
    if any(avail(p) < held for p in plan):
        return None
    return lv.held_nums.setdefault(held, [held] * lv.nd)


def _call_insert(lv, via, params, nums, held=None, nocheck=False):
    g = shapes.G
    obj = lv.obj
    if via == "operations":
        g.operations.insert_knot(obj, ARGSEQ[0](params), held if held is not None else ARGSEQ[0](nums), **({"check_num": False} if nocheck else {}))
        return
    kw = {"check_r": False} if nocheck else {}
    if lv.nd == 1:
        obj.insert_knot(params[0], num=nums[0], **kw)
    else:
        for d in range(lv.nd):
            if params[d] is not None:
                kw[shapes.SUFFIX[d]] = params[d]
                kw["num_" + shapes.SUFFIX[d]] = nums[d]
        obj.insert_knot(**kw)


def _call_remove(lv, via, params, nums, held=None, nocheck=False):
    g = shapes.G
    obj = lv.obj
    if via == "operations":
        g.operations.remove_knot(obj, ARGSEQ[0](params), held if held is not None else ARGSEQ[0](nums), **({"check_num": False} if nocheck else {}))
        return
    kw = {"check_r": False} if nocheck else {}
    if lv.nd == 1:
        obj.remove_knot(params[0], num=nums[0], **kw)
    else:
        for d in range(lv.nd):
            if params[d] is not None:
                kw[shapes.SUFFIX[d]] = params[d]
                kw["num_" + shapes.SUFFIX[d]] = nums[d]
        obj.remove_knot(**kw)


def _touch_others(world, lv, key):
    """Mark every pending removable knot other than `key` as having seen an unrelated operation."""
    for other in world:
        for k in list(other.pending):
            if other is not lv or k != key:
                other.pending[k] = True


def run(script, ctx):
    prop = script["property"]
    g = shapes.G.load()
    num = R.fr if script["knobs"].get("exact") else float
    ARGSEQ[0] = tuple if script["knobs"].get("argseq") == "tuple" else list
    world = []
    caller_lists = {}
    sources = {sp["share_kv_with"] for sp in script["objects"] if sp.get("share_kv_with") is not None}
    for oi, spec in enumerate(script["objects"]):
        if spec.get("share_dirs"):
            one = list(spec["knots"][0])
            caller_lists[oi] = [one] * len(spec["knots"])
        elif oi in sources and spec.get("aL"):
            caller_lists[oi] = [list(kv) for kv in spec["knots"]]
    for oi, spec in enumerate(script["objects"]):
        lists = caller_lists.get(oi)
        src = spec.get("share_kv_with")
        if src is not None and src in caller_lists and src != oi and src < len(script["objects"]) and \
                script["objects"][src]["knots"] == spec["knots"]:
            lists = caller_lists[src]
            ctx.probe("knot_vector_lists_shared_by_two_objects")
        if lists is not None and len({id(x) for x in lists}) < len(lists):
            ctx.probe("one_knot_vector_list_for_all_directions")
        world.append(Live(spec, num, lists))
    ctx.log("built", [(lv.spec["kind"], lv.spec["rational"], lv.degrees, lv.sizes) for lv in world])
    for lv in world:
        if lv.spec.get("aL"):
            ctx.probe("unnormalised_object")
        ctx.probe("object:" + lv.spec["kind"] + (":rational" if lv.spec["rational"] else ""))
    base_seed = h64(script.get("seed", 0), script.get("run", 0), "oracle")
    n_removals = 0
    last = [None]

    def others_intact():
        """No operation on one object may change another one (they may have been built from the same caller variables)."""
        if last[0] is None or len(world) < 2:
            return
        k_, lv_, what_, sig_ = last[0]
        last[0] = None
        for j, other in enumerate(world):
            if other is lv_:
                continue
            try:
                _check_structure(ctx, other, what_ + " [an operation on ANOTHER object; this is object #%d, not operated on]" % j, sig_)
                if other.spec.get("share_kv_with") is not None or any(w.spec.get("share_kv_with") == j for w in world):
                    _check_function(ctx, other, what_ + " [an operation on ANOTHER object; this is object #%d]" % j, prop, sig_, h64(base_seed, "o", j))
            except Violation as e:
                if prop == "C06" and k_ in ("insert", "refine"):
                    raise Precondition("an insertion / refinement changed another object: %s" % (e,))
                raise

    for idx, op in enumerate(script["ops"] + [{"op": "_end"}]):
        if idx:
            others_intact()
        if op["op"] == "_end":
            break
        ctx.step = idx
        k = op["op"]
        if op.get("obj") is not None and op["obj"] < len(world):
            last[0] = (k, world[op["obj"]], "%s on object #%d (step %d)" % (k, op["obj"], idx),
                       dict(op=k, kind=world[op["obj"]].spec["kind"], rational=world[op["obj"]].spec["rational"], via=op.get("via", "-")))
        if k == "cache_clear":
            for name in ("knot_insertion_alpha", "knot_removal_alpha_i", "knot_removal_alpha_j"):
                fn = getattr(g.helpers, name, None)
                if fn is not None and hasattr(fn, "cache_clear"):
                    fn.cache_clear()
            ctx.fault("memo_evict")
            ctx.ops_executed += 1
            continue
        if op["obj"] >= len(world):
            ctx.ops_skipped += 1
            continue
        lv = world[op["obj"]]
        kind = lv.spec["kind"]
        sig = dict(op=k, kind=kind, rational=lv.spec["rational"], via=op.get("via", "-"))

        if k == "clone":
            dst = op["into"]
            if dst >= len(world) or dst == op["obj"]:
                ctx.ops_skipped += 1
                continue
            src_obj = lv.obj
            nd_ = lv.nd
            lists = [src_obj.knotvector] if nd_ == 1 else [getattr(src_obj, "knotvector_" + shapes.SUFFIX[d]) for d in range(nd_)]
            kw = {"normalize_kv": False} if lv.spec.get("aL") else {}
            new_obj = shapes.define_shared(shapes.new_object(kind, lv.spec["rational"], **kw), list(lv.degrees), list(lv.sizes),
                                           [list(q) for q in (src_obj.ctrlptsw if lv.spec["rational"] else src_obj.ctrlpts)], lists)
            new_obj.delta = src_obj.delta
            cl = copy.copy(lv)
            cl.obj = new_obj
            cl.spec = dict(lv.spec, share_kv_with=op["obj"])
            cl.knots = [list(kv) for kv in lv.knots]
            cl.sizes = list(lv.sizes)
            cl.held_nums = {}
            cl.pending = dict(lv.pending)
            cl.evalpts_read = False
            world[dst] = cl
            ctx.log("clone", op["obj"], dst)
            ctx.ops_executed += 1
            ctx.probe("object_built_from_the_getters_of_another")
            last[0] = None
            _check_structure(ctx, cl, "building a second object from the getters of object #%d" % op["obj"], sig)
            continue

        if k == "subeval":
            kw = {}
            for d in range(lv.nd):
                sfx = "" if lv.nd == 1 else "_" + shapes.SUFFIX[d]
                lo_k, hi_k = lv.knots[d][lv.degrees[d]], lv.knots[d][-lv.degrees[d] - 1]
                kw["start" + sfx] = lo_k + (hi_k - lo_k) * op["lo"][d]
                kw["stop" + sfx] = lo_k + (hi_k - lo_k) * min(1.0, op["hi"][d])
            lv.obj.evaluate(**kw)
            lv.evalpts_read = True
            lv.partial = True
            ctx.log("subeval", op["obj"], sorted(kw.items()))
            ctx.ops_executed += 1
            ctx.probe("partial_domain_evaluation_before_modification")
            _touch_others(world, lv, None)
            continue

        if k == "read":
            got = [list(p) for p in lv.obj.evalpts]
            lv.evalpts_read = True
            ctx.log("read", op["obj"], len(got))
            ctx.ops_executed += 1
            _touch_others(world, lv, None)
            continue

        if k == "insert":
            params = [None] * lv.nd
            nums = [0] * lv.nd
            plan = []
            for ds, spec in sorted(op["dirs"].items()):
                d = int(ds)
                if d >= lv.nd:
                    continue
                u, on_knot = _resolve_at(lv, d, spec["at"])
                s = lv.mult(d, u)
                room = lv.degrees[d] - s
                if room <= 0:
                    continue
                r = max(1, min(spec["num"], room))
                params[d] = u
                nums[d] = r
                plan.append((d, u, r, s))
            if not plan:
                ctx.ops_skipped += 1
                continue
            held = _held_list(lv, op.get("held_num"), plan, lambda p: lv.degrees[p[0]] - p[3]) if op["via"] == "operations" else None
            if held is not None:
                plan = [(d, u, lv.degrees[d] if op["held_num"] == "degree" else op["held_num"], s) for d, u, r, s in plan]
                for d, u, r, s in plan:
                    nums[d] = r
                ctx.probe("caller_held_count_list:" + str(op["held_num"]))
            what = "insert_knot(%s) params=%r nums=%r%s" % (op["via"], params, nums, "" if held is None else " (counts passed as the caller-held list %r)" % (list(held),))
            try:
                if op.get("nocheck"):
                    ctx.probe("checks_disabled_by_caller")
                    what += " (check_num / check_r = False)"
                _call_insert(lv, op["via"], params, nums, held, nocheck=bool(op.get("nocheck")))
            except Exception as e:
                if prop == "C06":
                    raise Precondition("insertion raised %r" % (e,))
                ctx.fail("valid_insert_raised", "%s raised %r on %s degrees=%r knots=%r" % (what, e, kind, lv.degrees, lv.knots), **sig)
            for d, u, r, s in plan:
                lv.knots[d] = sorted(lv.knots[d] + [lv.snap(d, u)] * r)
                lv.sizes[d] += r
                lv.pending.setdefault((d, u), False)
                if s > 0:
                    ctx.probe("insert_on_existing_knot")
                    if s >= 2:
                        ctx.probe("insert_on_knot_mult_ge_2")
            ctx.log("insert", op["obj"], op["via"], params, nums)
            ctx.ops_executed += 1
            lv.n_insert_ok += 1
            if prop == "C04":
                if lv.n_insert_ok >= 2 and (any(s > 0 for _, _, _, s in plan) or lv.evalpts_read):
                    ctx.nontrivial = True
                _check_structure(ctx, lv, what, sig)
                _check_function(ctx, lv, what, prop, sig, h64(base_seed, idx))
                _check_evalpts(ctx, lv, what, sig, modified=True)
            else:
                try:
                    _check_structure(ctx, lv, what, sig)
                except Exception as e:
                    raise Precondition("insertion broke the structure: %s" % (e,))
                _check_function(ctx, lv, what, prop, sig, h64(base_seed, idx), as_precondition=True)
            for d, u, r, s in plan:
                _touch_others(world, lv, (d, u))
            ctx.state("%s:%s:ins:%d" % (kind, lv.spec["rational"], len(plan)))
            continue

        if k == "reject":
            d = op["dir"] % lv.nd
            u, _ = _resolve_at(lv, d, op["at"])
            s = lv.mult(d, u)
            r = max(1, (lv.degrees[d] - s) + op["excess"])
            if op["at"][0] == "end":
                ctx.probe("reject_at_domain_end")
            params = [None] * lv.nd
            nums = [0] * lv.nd
            params[d] = u
            nums[d] = r
            before = _views(lv)
            what = "rejected insert_knot(%s) params=%r nums=%r (multiplicity %d, degree %d)" % (op["via"], params, nums, s, lv.degrees[d])
            raised = None
            try:
                _call_insert(lv, op["via"], params, nums)
            except Exception as e:
                raised = e
            ctx.fault("rejected_insert")
            ctx.log("reject", op["obj"], params, nums, type(raised).__name__ if raised else None)
            ctx.ops_executed += 1
            if prop == "C04":
                after = _views(lv)
                if op["via"] == "operations" and raised is None:
                    ctx.fail("excess_insert_accepted", "%s returned normally" % what, **sig)
                ok, why = close(_flatten_views(after), _flatten_views(before), 0.0, 1.0)
                if not ok or after["definition"]["sizes"] != before["definition"]["sizes"]:
                    ctx.fail("rejected_insert_changed_object", "%s changed the object: %s\n before=%r\n after =%r" % (
                        what, why, before["definition"], after["definition"]), **sig)
                if lv.evalpts_read:
                    ctx.probe("reject_after_cache_warm")
            _touch_others(world, lv, None)
            continue

        if k == "reject_multi":
            if prop != "C04":
                ctx.ops_skipped += 1
                continue
            params = [None] * lv.nd
            nums = [0] * lv.nd
            plan = {}
            bad = op["bad_dir"] % lv.nd
            for ds, spec in sorted(op["dirs"].items()):
                d = int(ds)
                if d >= lv.nd:
                    continue
                u, _ = _resolve_at(lv, d, spec["at"])
                s_ = lv.mult(d, u)
                room = lv.degrees[d] - s_
                if d == bad:
                    r = room + op["excess"]
                elif room <= 0:
                    continue
                else:
                    r = max(1, min(spec["num"], room))
                params[d], nums[d] = u, r
                plan[d] = (u, r)
            if len(plan) < 2:
                ctx.ops_skipped += 1
                continue
            what = "partially inadmissible insert_knot(%s) params=%r nums=%r (direction %d exceeds its multiplicity)" % (op["via"], params, nums, bad)
            try:
                _call_insert(lv, op["via"], params, nums)
            except Exception as e:   # the call is (partly) rejected: nothing is asserted about how
                ctx.log("reject_multi_raised", type(e).__name__)
            ctx.fault("partially_rejected_insert")
            ctx.ops_executed += 1
            # whichever directions were carried out, the object must still be a consistent description of the ORIGINAL shape:
            # per direction the knot vector is either the old one or the old one plus the requested copies, sizes follow
            try:
                dfn = shapes.definition(lv.obj)
            except Exception as e:
                ctx.fail("definition_broken", "after a %s the public definition is unreadable: %r" % (what, e), **sig)
            for d in range(lv.nd):
                old = lv.knots[d]
                new = sorted(old + [plan[d][0]] * plan[d][1]) if d in plan else old
                got = dfn["knots"][d]
                if close(got, old, 1e-12, 1.0)[0] and dfn["sizes"][d] == lv.sizes[d]:
                    continue
                if d in plan and d != bad and close(got, new, 1e-12, 1.0)[0] and dfn["sizes"][d] == lv.sizes[d] + plan[d][1]:
                    lv.knots[d] = new
                    lv.sizes[d] += plan[d][1]
                    lv.pending.setdefault((d, plan[d][0]), False)
                    continue
                ctx.fail("definition_broken", "after a %s direction %d has %d control points with knot vector %r (before the call: %d points, %r)" % (
                    what, d, dfn["sizes"][d], got, lv.sizes[d], old), **sig)
            ctx.log("reject_multi", op["obj"], params, nums, lv.sizes)
            _check_function(ctx, lv, what, prop, sig, h64(base_seed, idx))
            _check_evalpts(ctx, lv, what, sig, modified=False)
            _touch_others(world, lv, None)
            continue

        if k == "refine":
            if prop != "C06":
                ctx.ops_skipped += 1
                continue
            dens = (op["density"] + [0, 0, 0])[:lv.nd]
            if max(lv.sizes) > 20:
                ctx.ops_skipped += 1          # refinement doubles the net: keep runs bounded (a step cap does not bound a blow-up)
                continue
            what = "refine_knotvector(%r)" % (dens,)
            try:
                g.operations.refine_knotvector(lv.obj, dens)
            except Exception as e:
                raise Precondition("refinement raised %r" % (e,))
            d = shapes.definition(lv.obj)
            lv.knots = [list(kv) for kv in d["knots"]]
            lv.sizes = list(d["sizes"])
            for dd in range(lv.nd):
                if any(abs(a - b) > 0 for a, b in zip(sorted(lv.knots[dd]), lv.knots[dd])):
                    raise Precondition("refinement produced an unsorted knot vector")
                for kk, extra in lv.removable(dd):
                    lv.pending.setdefault((dd, kk), False)
            ctx.log("refine", op["obj"], dens, lv.sizes)
            ctx.ops_executed += 1
            ctx.probe("refine_as_source_of_removable_knots")
            _check_function(ctx, lv, what, prop, sig, h64(base_seed, idx), as_precondition=True)
            _touch_others(world, lv, None)
            continue

        if k == "reject_remove":
            if prop != "C06":
                ctx.ops_skipped += 1
                continue
            d = op["dir"] % lv.nd
            a_, L_ = lv.aL[d]
            if op["what"] == "too_many":
                ik = lv.interior(d)
                if not ik:
                    ctx.ops_skipped += 1
                    continue
                u = ik[op["which"] % len(ik)]
                r = lv.mult(d, u) + 1
            else:
                u = a_ + L_ * op["t"]            # odd multiple of 1/256: not a knot unless refinement went that deep
                if lv.mult(d, u) > 0 or not (lv.knots[d][0] < u < lv.knots[d][-1]):
                    ctx.ops_skipped += 1
                    continue
                r = 1
            params = [None] * lv.nd
            nums = [0] * lv.nd
            params[d], nums[d] = u, r
            what = "refused remove_knot(%s) params=%r nums=%r (%s)" % (op["via"], params, nums, op["what"])
            try:
                _call_remove(lv, op["via"], params, nums)
                outcome = "returned"
            except Exception as e:
                outcome = type(e).__name__
            ctx.fault("rejected_remove")
            ctx.log("reject_remove", op["obj"], params, nums, outcome)
            ctx.ops_executed += 1
            # nothing is asserted about HOW the request is refused; but nothing removable was removed, so the object must still
            # describe the original function with the knot vectors and sizes the history so far implies
            _check_structure(ctx, lv, what, sig)
            _check_function(ctx, lv, what, prop, sig, h64(base_seed, idx))
            _check_evalpts(ctx, lv, what, sig, modified=False)
            _touch_others(world, lv, None)
            continue

        if k == "remove":
            if prop != "C06":
                ctx.ops_skipped += 1
                continue
            params = [None] * lv.nd
            nums = [0] * lv.nd
            plan = []
            for ds, spec in sorted(op["dirs"].items()):
                d = int(ds)
                if d >= lv.nd:
                    continue
                rem = lv.removable(d)
                if not rem:
                    continue
                u, extra = rem[spec["which"] % len(rem)]
                r = max(1, min(spec["num"], extra))
                params[d] = u
                if spec.get("near") is not None:
                    un = u + _near_offset(spec["near"], u)
                    if un != u and lv.knots[d][0] < un < lv.knots[d][-1]:
                        params[d] = un
                        ctx.probe("knot_named_with_float_noise")
                nums[d] = r
                plan.append((d, u, r, extra))
            if not plan:
                ctx.ops_skipped += 1
                continue
            held = _held_list(lv, op.get("held_num"), plan, lambda p: p[3]) if op["via"] == "operations" else None
            if held is not None:
                plan = [(d, u, op["held_num"], extra) for d, u, r, extra in plan]
                for d, u, r, extra in plan:
                    nums[d] = r
                ctx.probe("caller_held_count_list:remove")
            what = "remove_knot(%s) params=%r nums=%r%s" % (op["via"], params, nums, "" if held is None else " (counts passed as the caller-held list %r)" % (list(held),))
            for d, u, r, extra in plan:
                if lv.pending.get((d, u)):
                    ctx.nontrivial = True
                    ctx.probe("removal_after_unrelated_operation")
                if r >= 2:
                    ctx.probe("removal_count_ge_2")
                if r < extra:
                    ctx.probe("partial_removal")
            try:
                if op.get("nocheck"):
                    ctx.probe("checks_disabled_by_caller")
                _call_remove(lv, op["via"], params, nums, held, nocheck=bool(op.get("nocheck")))
            except Exception as e:
                ctx.fail("valid_remove_raised", "%s raised %r on %s degrees=%r knots=%r" % (what, e, kind, lv.degrees, lv.knots), **sig)
            for d, u, r, extra in plan:
                for _ in range(r):
                    lv.knots[d].remove(u)
                lv.sizes[d] -= r
                if r == extra:
                    lv.pending.pop((d, u), None)
            n_removals += 1
            ctx.log("remove", op["obj"], op["via"], params, nums)
            ctx.ops_executed += 1
            sig["degree"] = lv.degrees[plan[0][0]]
            _check_structure(ctx, lv, what, sig)
            _check_function(ctx, lv, what, prop, sig, h64(base_seed, idx))
            _check_evalpts(ctx, lv, what, sig, modified=True)
            if all(not lv.removable(dd) for dd in range(lv.nd)) and lv.knots == lv.orig_knots:
                net = shapes.definition(lv.obj)["ctrlptsw"]
                ok, why = close(net, lv.orig_net, TOL)
                ctx.probe("full_restoration_checked")
                if not ok:
                    ctx.fail("net_not_restored", "after %s all inserted knots are removed but the control net differs from the "
                             "original (%s)" % (what, why), **sig)
            for d, u, r, extra in plan:
                _touch_others(world, lv, (d, u))
            ctx.state("%s:%s:rem:%d" % (kind, lv.spec["rational"], len(plan)))
            continue
        ctx.ops_skipped += 1


def _flatten_views(v):
    d = v["definition"]
    return [d["degrees"], d["knots"], d["sizes"], d["ctrlptsw"], v["delta"], v["bbox"], v.get("evalpts", [])]
