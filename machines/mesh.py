"""C15 - tessellation is a valid triangulation lying on the surface; mesh exports describe exactly that mesh.

World: 1-3 normalised surfaces (rational or not), one SurfaceContainer, SimPool (container tessellation with
num_procs > 1 under seeded schedules and worker faults) and SimDisk (OBJ / OFF / STL writers, with I/O faults).
A run is a seeded history of sampling changes, tessellations (vertex spacing, force), mesh reads, geometry
edits (must invalidate), container add / sample / tessellate / read, quad tessellations and mesh exports to
strings and files.  The mesh checker R4 is evaluated on *whatever mesh the object reports in its current
state*; written files are parsed by independent readers and must describe exactly that mesh.
"""
import math
import struct

from sim import shapes, pool as simpool, disk as simdisk
from sim.core import Rng, SimCrash, close, h64

PROPS = ["C15"]
BUDGET = {"C15": {"quick": {"runs": 4000, "wall_cap_s": 170}, "thorough": {"runs": 80000, "wall_cap_s": 1800}}}
RULE = {"C15": "one case = one seeded history (3-20 steps) over 1-3 surfaces and a container: sample sizes 2-12 (thorough up to 40), vertex "
               "spacings dividing n-1, forced / cached tessellation, edits, container tessellation on 1-4 simulated workers, quad "
               "tessellation, OBJ/OFF/STL export to strings and to a simulated disk with faults, polygonal and spline trims; "
               "non-trivial = a mesh is read or written after an earlier tessellation of the same surface and an intervening "
               "edit, re-sampling, container tessellation or export; distinct = distinct operation-list digest"}
ASSUMPTIONS = {"C15": [
    "normalised clamped surfaces, 3-D, degrees <= 3, <= 6x5 control points",
    "vertex positions are compared with the library's own evaluate_single at the stored uv for the *current* definition (differential on "
    "purpose: a defect in evaluation belongs to C01)",
    "binary STL stores float32: positions compared at 1e-5 relative, everything else at 1e-9",
    "facet normals: parallel to and oriented like the geometric normal of the written facet (unit length is not demanded); degenerate "
    "facets (zero area) are not judged",
    "trims: closed convex polygons / degree-1 splines with vertices at odd multiples of 1/128 (never on a grid line); a sampling cell whose "
    "3x3 neighbourhood lies strictly inside the trimmed region must be covered by no triangle, one whose neighbourhood lies strictly "
    "outside must be covered exactly once; cells nearer the trim boundary are not judged",
    "under an injected fault nothing is asserted about the faulted call; the next fault-free operation must be valid"]}
COMPONENTS = {"real": ["geomdl tessellate/_tessellate, abstract.Surface.tessellate, multi.SurfaceContainer.tessellate, exchange mesh writers (working tree)",
                       "pickling across the worker boundary"],
              "stub": ["process-pool scheduler: SimPool", "file system: SimDisk"]}


def prepare():
    shapes.G.load()
    simpool.install()


# ---------------------------------------------------------------------------------------------
# generation

def gen(prop, stream, tier, avoid):
    rng = stream("ops")
    kn = stream("knobs")
    fl = stream("faults")
    max_n = 12 if tier == "quick" else kn.pick([12, 12, 24, 40])
    knobs = {"cache_size": None, "bufsize": kn.pick([64, 512, 8192]), "chunk": kn.pick(["default", "one", "all"]),
             "sched": kn.randrange(1 << 30), "fault_p": kn.pick([0.0, 0.0, 0.0, 0.2])}
    nobj = kn.pick([1, 2, 2, 3, 3, 4])
    objs = []
    for _ in range(nobj):
        spec = shapes.gen_shape(rng, kind="surface", max_size=6, max_degree=3, dim=3)
        if rng.chance(0.12):
            # the same kind of surface in other units (a part of a few millimetres modelled in metres): exact power-of-two factor
            f_ = rng.pick([2.0 ** -10, 2.0 ** -13, 2.0 ** 10])
            spec["P"] = [[c * f_ for c in q] for q in spec["P"]]
            spec["scale"] = f_
        if rng.chance(0.25) and "trims" not in avoid:
            spec["trim"] = _gen_trim(rng)
        elif rng.chance(0.15):
            spec["trim_tessellator_without_trims"] = True     # the trim-aware tessellator on a surface that has no trim
        elif rng.chance(0.25):
            # knot vectors kept in their original range a + L*[0, 1] (normalize_kv=False); the mesh parameters stay in [0, 1]
            spec["aL"] = [[rng.pick([-2.0, 0.0, 1.0, 3.5]), rng.pick([0.5, 1.0, 2.0, 4.0])] for _ in range(2)]
            spec["knots"] = [shapes.affine_knots(kv, a, L) for kv, (a, L) in zip(spec["knots"], spec["aL"])]
        objs.append(spec)
    use_cont = kn.chance(0.6)
    nops = kn.pick([3, 4, 5, 6, 8, 10, 14, 20] + ([30, 40] if tier == "thorough" else []))
    W = [("sample", 3), ("tessellate", 3), ("read", 4), ("edit", 1.5), ("quad", 0.7), ("export", 3), ("bad_tessellate", 0.5), ("subeval", 0.6), ("direct", 0.8), ("add_trim", 0.5), ("copy", 0.7)]
    if use_cont:
        W += [("cadd", 2.5), ("csample", 1), ("ctess", 2.5), ("cread", 2.5), ("ctessellator", 0.6)]
    W = [(k, w * kn.uniform(0.4, 1.4)) for k, w in W]
    ops = []
    pool_faults = []
    ncalls = 0
    if use_cont and rng.chance(0.6):
        for i in range(rng.randint(1, nobj)):
            ops.append({"op": "cadd", "obj": i})
    for _ in range(nops):
        k = rng.weighted(W)
        op = {"op": k, "obj": rng.randrange(4)}
        if k == "sample":
            trimmed_ = bool(objs[op["obj"] % nobj].get("trim"))
            lo_n, hi_n = (10, max(20, max_n)) if trimmed_ else (2, max_n)
            op["n"] = [rng.randint(lo_n, hi_n), rng.randint(lo_n, hi_n)] if rng.chance(0.6) else [rng.randint(lo_n, hi_n)] * 2
            op["how"] = rng.pick(["sample_size", "uv", "delta"])
        elif k == "tessellate":
            op["spacing"] = rng.randrange(6)
            op["force"] = rng.chance(0.5)
        elif k == "edit":
            op["seed"] = rng.randrange(1 << 30)
        elif k == "copy":
            op["how"] = rng.pick(["deepcopy", "deepcopy", "translate"])
            op["vec"] = [rng.dyadic(-4, 4, 4) for _ in range(3)]
        elif k == "direct":
            op["spacing"] = rng.randrange(6)
            op["via"] = rng.pick(["class", "class", "function"])
        elif k == "add_trim":
            op["trim"] = _gen_trim(rng)
            op["n"] = rng.randint(12, 16)
            op["how"] = rng.pick(["add_trim", "add_trim", "setter"])
        elif k == "subeval":
            # the caller evaluates part of the domain only (documented: evaluate(start_u=..., stop_u=..., ...)); in 1/16 of the domain
            a_, b_ = sorted(rng.sample(range(0, 17), 2))
            c_, d_ = sorted(rng.sample(range(0, 17), 2))
            op["range"] = [a_ / 16.0, b_ / 16.0, c_ / 16.0, d_ / 16.0]
            op["dirs"] = rng.pick(["uv", "u", "v"])
        elif k == "bad_tessellate":
            op["how"] = rng.pick(["spacing_zero", "spacing_zero", "spacing_negative", "container_spacing_zero"])
            op["after_reset"] = rng.chance(0.7)
        elif k == "csample":
            op["n"] = rng.randint(2, min(max_n, 12))
        elif k == "ctessellator":
            op["cls"] = rng.pick(["tri", "trim"])
            op["used"] = rng.chance(0.6)      # the object handed over has already tessellated another surface
            op["donor"] = rng.randrange(4)
        elif k == "ctess":
            op["num_procs"] = rng.pick([1, 1, 2, 4])
            op["delta"] = rng.chance(0.6)
            op["force"] = rng.chance(0.5)
            if op["num_procs"] > 1:
                ncalls += 1
                if fl.chance(knobs["fault_p"]):
                    pool_faults.append({"kind": "worker_raises", "call": ncalls, "item": fl.randint(0, 2), "when": fl.pick(["before", "after"])})
        elif k == "export":
            op["fmt"] = rng.pick(["obj", "off", "stl_ascii", "stl_bin"])
            op["target"] = rng.pick(["obj", "obj", "container"]) if use_cont else "obj"
            op["spacing"] = rng.randrange(4)
            op["update_delta"] = rng.chance(0.5)
            op["to"] = rng.pick(["str", "file"])
            op["obj_opts"] = rng.pick([[], [], ["vertex_normals"], ["parametric_vertices"], ["vertex_normals", "parametric_vertices"]])
            op["pre"] = rng.pick([None, None, "contains", "next", "break"])
            op["faults"] = []
            if op["to"] == "file" and fl.chance(knobs["fault_p"]):
                op["faults"].append({"kind": fl.pick(["open_fails", "write_fails", "close_fails"]), "nth": 1, "errno": fl.pick([5, 28])})
        ops.append(op)
    if use_cont and nobj >= 3 and kn.chance(0.35):
        # motif: a container that was tessellated on the pool gets more work for only some of its elements
        # (new members / an edited member) and is tessellated on the pool again
        np_ = kn.pick([2, 2, 4])
        motif = [{"op": "cadd", "obj": 0}, {"op": "cadd", "obj": 1},
                 {"op": "ctess", "obj": 0, "num_procs": np_, "delta": kn.chance(0.7), "force": False}]
        if kn.chance(0.5):
            motif += [{"op": "cadd", "obj": 2}] + ([{"op": "cadd", "obj": 3}] if nobj >= 4 else [{"op": "edit", "obj": 1, "seed": kn.randrange(1 << 30)}])
        else:
            motif += [{"op": "cadd", "obj": 2}, {"op": "edit", "obj": kn.pick([1, 2]), "seed": kn.randrange(1 << 30)},
                      {"op": "edit", "obj": 2, "seed": kn.randrange(1 << 30)}]
        motif += [{"op": "ctess", "obj": 0, "num_procs": np_, "delta": kn.chance(0.7), "force": False}, {"op": "cread", "obj": 0}]
        at = kn.randint(0, len(ops))
        ops = ops[:at] + motif + ops[at:]
    if use_cont and kn.chance(0.15):
        # motif: the container's tessellation component is replaced between two reads of the container mesh
        motif = [{"op": "cadd", "obj": 0}, {"op": "cadd", "obj": 1}, {"op": "cread", "obj": 0},
                 {"op": "ctessellator", "cls": kn.pick(["tri", "trim"]), "used": kn.chance(0.8), "donor": kn.randrange(4)},
                 {"op": kn.pick(["cread", "cread", "ctess"]), "obj": 0, "num_procs": 1, "delta": True, "force": False}]
        at = kn.randint(0, len(ops))
        ops = ops[:at] + motif + ops[at:]
    knobs["pool_faults"] = pool_faults
    return {"knobs": knobs, "objects": objs, "ops": ops}


def _gen_trim(rng):
    cx, cy = rng.randint(24, 40) * 2 + 1, rng.randint(24, 40) * 2 + 1
    rx, ry = rng.randint(8, 20) * 2, rng.randint(8, 20) * 2
    pts = [[(cx - rx) / 128.0, (cy - ry) / 128.0], [(cx + rx) / 128.0, (cy - ry) / 128.0],
           [(cx + rx) / 128.0, (cy + ry) / 128.0], [(cx - rx) / 128.0, (cy + ry) / 128.0], [(cx - rx) / 128.0, (cy - ry) / 128.0]]
    return {"type": rng.pick(["spline", "freeform"]), "points": pts}


def simplify(script):
    for i, sp in enumerate(script["objects"]):
        if sp.get("trim"):
            sp2 = dict(sp)
            sp2.pop("trim")
            yield dict(script, objects=script["objects"][:i] + [sp2] + script["objects"][i + 1:])
        if sp["rational"]:
            sp2 = dict(sp, rational=False)
            sp2.pop("W", None)
            yield dict(script, objects=script["objects"][:i] + [sp2] + script["objects"][i + 1:])
    if script["knobs"].get("pool_faults"):
        yield dict(script, knobs=dict(script["knobs"], pool_faults=[]))
    for i, op in enumerate(script["ops"]):
        if op["op"] == "sample" and max(op["n"]) > 3:
            ops = list(script["ops"])
            ops[i] = dict(op, n=[max(2, op["n"][0] // 2 + 1), max(2, op["n"][1] // 2 + 1)])
            yield dict(script, ops=ops)
        if op["op"] == "ctess" and op["num_procs"] > 1:
            ops = list(script["ops"])
            ops[i] = dict(op, num_procs=1)
            yield dict(script, ops=ops)


def sample_view(script, res):
    return {"run": script["run"], "knobs": script["knobs"],
            "objects": [{"rational": s["rational"], "degrees": s["degrees"], "sizes": s["sizes"], "trim": bool(s.get("trim"))} for s in script["objects"]],
            "history": script["ops"][:20], "pool_schedules": res.get("extra", {}).get("sigs", [])[:3]}


# ---------------------------------------------------------------------------------------------
# R4: mesh checker

def _tri_area_uv(a, b, c):
    return 0.5 * ((b[0] - a[0]) * (c[1] - a[1]) - (c[0] - a[0]) * (b[1] - a[1]))


def _to_domain(surf, uv):
    """Mesh vertices carry parameters in [0, 1] x [0, 1]; a surface whose knot vectors are kept un-normalised lives on its own domain."""
    out = []
    for x, (lo, hi) in zip(uv, surf.domain):
        x = min(1.0, max(0.0, x))
        out.append(lo + x * (hi - lo))
    return out


def check_mesh(ctx, V, F, surf, what, sig, expect_spacing=None, sample=None, trim=None, id_offset=0):
    """V: list of (id, uv, data); F: list of vertex-id triples. Raises through ctx.fail on a violation."""
    n = len(V)
    if (n == 0 or not F) and trim is not None:
        ctx.probe("trimmed_mesh_empty")
        return
    if n == 0 or not F:
        ctx.fail("mesh_invalid", "%s: empty mesh (%d vertices, %d faces)" % (what, n, len(F)), check="nonempty", **sig)
    for k, (vid, uv, data) in enumerate(V):
        if vid != k + id_offset:
            ctx.fail("mesh_invalid", "%s: vertex ids are not consecutive from %d: position %d carries id %r" % (what, id_offset, k, vid), check="vertex_ids", **sig)
    for t in F:
        if len(t) != 3 or any((not isinstance(i, int)) or i < id_offset or i >= id_offset + n for i in t):
            ctx.fail("mesh_invalid", "%s: face %r references a vertex outside [%d, %d)" % (what, t, id_offset, id_offset + n), check="face_index_range", **sig)
        if len(set(t)) != 3:
            ctx.fail("mesh_invalid", "%s: degenerate face %r" % (what, t), check="face_degenerate", **sig)
    # vertex positions lie on the surface at their stored parameters (library's own evaluation, current definition)
    for vid, uv, data in V:
        if not (-1e-12 <= uv[0] <= 1 + 1e-12 and -1e-12 <= uv[1] <= 1 + 1e-12):
            ctx.fail("mesh_invalid", "%s: vertex %d has parameters %r outside the domain" % (what, vid, uv), check="uv_range", **sig)
        p = surf.evaluate_single(_to_domain(surf, uv))
        ok, why = close(list(data), list(p), 1e-9)
        if not ok:
            ctx.fail("vertex_off_surface", "%s: vertex %d at uv=%r is at %r but the surface evaluates to %r there" % (what, vid, uv, list(data), list(p)),
                     check="on_surface", **sig)
    # ... and, for a few vertices, against the reference model (the library's own evaluation could share a process-wide memo with
    # the code that produced the mesh)
    try:
        ref_model = shapes.model_of(surf)
    except Exception:
        ref_model = None
    if ref_model is not None and V:
        for vid, uv, data in [V[0], V[len(V) // 3], V[(2 * len(V)) // 3], V[-1]]:
            q = ref_model.eval_float(_to_domain(surf, uv))
            ok, why = close(list(data), q, 1e-8)
            if not ok:
                ctx.fail("vertex_off_surface", "%s: vertex %d at uv=%r is at %r but the surface its definition describes is at %r there (reference model)" % (
                    what, vid, uv, list(data), q), check="on_surface_model", **sig)
    us = sorted({round(uv[0], 10) for _, uv, _ in V})
    vs = sorted({round(uv[1], 10) for _, uv, _ in V})
    uvs = {vid: uv for vid, uv, _ in V}
    # orientation (for trimmed surfaces only away from the trim: the clipping near the trim boundary is a heuristic that the
    # statement only bounds 'to within one sampling cell', slivers and degenerate triangles there are not judged)
    near = None
    if trim is not None:
        xs_ = [p[0] for p in trim["points"]]
        ys_ = [p[1] for p in trim["points"]]
        mu = 1.5 / max(1, (sample[0] - 1) // (expect_spacing or 1)) if sample else 0.5
        mv = 1.5 / max(1, (sample[1] - 1) // (expect_spacing or 1)) if sample else 0.5
        near = (min(xs_) - mu, max(xs_) + mu, min(ys_) - mv, max(ys_) + mv)
    signs = set()
    for t in F:
        if near is not None and any(near[0] <= uvs[i][0] <= near[1] and near[2] <= uvs[i][1] <= near[3] for i in t):
            continue
        a = _tri_area_uv(uvs[t[0]], uvs[t[1]], uvs[t[2]])
        if abs(a) < 1e-14:
            ctx.fail("mesh_invalid", "%s: face %r has zero area in the parameter plane" % (what, t), check="face_area", **sig)
        signs.add(a > 0)
    if len(signs) > 1:
        ctx.fail("mesh_invalid", "%s: triangles are not consistently oriented in the parameter plane" % what, check="orientation", **sig)
    if trim is None:
        # full grid
        if abs(us[0]) > 1e-9 or abs(us[-1] - 1) > 1e-9 or abs(vs[0]) > 1e-9 or abs(vs[-1] - 1) > 1e-9:
            ctx.fail("mesh_invalid", "%s: the mesh does not span the whole parametric rectangle (u in [%r,%r], v in [%r,%r])" % (what, us[0], us[-1], vs[0], vs[-1]),
                     check="spans_domain", **sig)
        a, b = len(us) - 1, len(vs) - 1
        if a < 1 or b < 1 or n != (a + 1) * (b + 1):
            ctx.fail("mesh_invalid", "%s: %d vertices do not form a %dx%d grid" % (what, n, a + 1, b + 1), check="grid", **sig)
        for seq in (us, vs):
            step = (seq[-1] - seq[0]) / (len(seq) - 1)
            if any(abs((y - x) - step) > 1e-8 for x, y in zip(seq, seq[1:])):
                ctx.fail("mesh_invalid", "%s: grid parameters are not evenly spaced: %r" % (what, seq[:8]), check="grid_spacing", **sig)
        if sample is not None:
            nu, nv = sample
            su = (nu - 1) / float(a)
            sv = (nv - 1) / float(b)
            if abs(su - round(su)) > 1e-9 or abs(sv - round(sv)) > 1e-9 or round(su) != round(sv) or \
                    (expect_spacing is not None and round(su) != expect_spacing):
                ctx.fail("mesh_invalid", "%s: a %dx%d vertex grid does not match sample size %r with vertex spacing %s" % (
                    what, a + 1, b + 1, (nu, nv), expect_spacing if expect_spacing is not None else "(any common divisor)"), check="counts", **sig)
        if len(F) != 2 * a * b:
            ctx.fail("mesh_invalid", "%s: %d triangles for %dx%d cells (expected %d)" % (what, len(F), a, b, 2 * a * b), check="counts", **sig)
        # every cell exactly two triangles, tiling it exactly once
        cell = {}
        iu = {u: i for i, u in enumerate(us)}
        iv = {v: i for i, v in enumerate(vs)}
        cell_area = (1.0 / a) * (1.0 / b)
        for t in F:
            pts = [uvs[i] for i in t]
            cu = min(iu[round(p[0], 10)] for p in pts)
            cv = min(iv[round(p[1], 10)] for p in pts)
            if max(iu[round(p[0], 10)] for p in pts) - cu != 1 or max(iv[round(p[1], 10)] for p in pts) - cv != 1:
                ctx.fail("mesh_invalid", "%s: face %r does not lie within one grid cell" % (what, t), check="cell_tiling", **sig)
            cell.setdefault((cu, cv), []).append(abs(_tri_area_uv(*pts)))
        for i in range(a):
            for j in range(b):
                ar = cell.get((i, j), [])
                if len(ar) != 2 or abs(sum(ar) - cell_area) > 1e-9:
                    ctx.fail("mesh_invalid", "%s: grid cell (%d,%d) is covered by %d triangles with total area %r (cell area %r)" % (
                        what, i, j, len(ar), sum(ar), cell_area), check="cell_tiling", **sig)
        # edges / Euler characteristic of a disc
        edges = {}
        for t in F:
            for x, y in ((t[0], t[1]), (t[1], t[2]), (t[2], t[0])):
                e = (min(x, y), max(x, y))
                edges[e] = edges.get(e, 0) + 1
        for e, c in edges.items():
            pa, pb = uvs[e[0]], uvs[e[1]]
            on_boundary = any(abs(pa[d] - pb[d]) < 1e-12 and (abs(pa[d]) < 1e-9 or abs(pa[d] - 1) < 1e-9) for d in (0, 1))
            if c != (1 if on_boundary else 2):
                ctx.fail("mesh_invalid", "%s: edge %r is used by %d triangles (%s edge)" % (what, e, c, "boundary" if on_boundary else "interior"),
                         check="edge_sharing", **sig)
        if n - len(edges) + len(F) != 1:
            ctx.fail("mesh_invalid", "%s: V - E + F = %d, a disc has 1" % (what, n - len(edges) + len(F)), check="euler", **sig)
    else:
        _check_trimmed(ctx, V, F, uvs, what, sig, sample, trim, expect_spacing)


def _check_trimmed(ctx, V, F, uvs, what, sig, sample, trim, spacing):
    """Conservative statement of 'the omitted region matches the trimmed region to within one sampling cell'."""
    if sample is None or spacing is None:
        ctx.probe("trim_not_judged_spacing_unknown")
        return
    nu, nv = (sample[0] - 1) // spacing + 1, (sample[1] - 1) // spacing + 1
    if nu < 2 or nv < 2:
        return
    xs = [p[0] for p in trim["points"]]
    ys = [p[1] for p in trim["points"]]
    x0, x1, y0, y1 = min(xs), max(xs), min(ys), max(ys)
    du, dv = 1.0 / (nu - 1), 1.0 / (nv - 1)
    cover = {}
    for t in F:
        pts = [uvs[i] for i in t]
        cx = sum(p[0] for p in pts) / 3.0
        cy = sum(p[1] for p in pts) / 3.0
        i, j = min(int(cx / du), nu - 2), min(int(cy / dv), nv - 2)
        cover[(i, j)] = cover.get((i, j), 0.0) + abs(_tri_area_uv(*pts))
    for i in range(nu - 1):
        for j in range(nv - 1):
            lo_u, hi_u, lo_v, hi_v = (i - 1) * du, (i + 2) * du, (j - 1) * dv, (j + 2) * dv
            area = cover.get((i, j), 0.0)
            if lo_u > x0 and hi_u < x1 and lo_v > y0 and hi_v < y1:
                if area > 1e-9:
                    ctx.fail("trim_mismatch", "%s: cell (%d,%d) lies deep inside the trimmed region [%r,%r]x[%r,%r] but is covered by triangles (area %r)" % (
                        what, i, j, x0, x1, y0, y1, area), check="trim_inside", **sig)
                ctx.probe("trim_cell_inside_checked")
            elif hi_u < x0 or lo_u > x1 or hi_v < y0 or lo_v > y1:
                if abs(area - du * dv) > 1e-9:
                    ctx.fail("trim_mismatch", "%s: cell (%d,%d) lies well outside the trimmed region but is covered with area %r instead of %r" % (
                        what, i, j, area, du * dv), check="trim_outside", **sig)
                ctx.probe("trim_cell_outside_checked")


# ---------------------------------------------------------------------------------------------
# independent mesh file readers (R5)

def parse_obj(text):
    V, F, extra = [], [], {"vn": [], "vp": []}
    for ln in text.split("\n"):
        tk = ln.split()
        if not tk or tk[0].startswith("#"):
            continue
        if tk[0] == "v":
            V.append([float(x) for x in tk[1:4]])
        elif tk[0] == "f":
            F.append([int(x.split("/")[0]) - 1 for x in tk[1:4]])
        elif tk[0] in ("vn", "vp"):
            extra[tk[0]].append([float(x) for x in tk[1:]])
    return V, F, extra


def parse_off(text):
    lines = [ln for ln in text.split("\n") if ln.strip()]
    if lines[0].strip() != "OFF":
        raise ValueError("missing OFF header")
    nv, nf, _ = [int(x) for x in lines[1].split()]
    V = [[float(x) for x in lines[2 + i].split()] for i in range(nv)]
    F = []
    for i in range(nf):
        tk = lines[2 + nv + i].split()
        if int(tk[0]) != 3:
            raise ValueError("non-triangular face")
        F.append([int(x) for x in tk[1:4]])
    if len(lines) != 2 + nv + nf:
        raise ValueError("header counts %d/%d do not match %d data lines" % (nv, nf, len(lines) - 2))
    return V, F, None


def parse_stl_ascii(text):
    tris, normals = [], []
    cur = None
    for ln in text.split("\n"):
        tk = ln.split()
        if not tk:
            continue
        if tk[0] == "facet":
            normals.append([float(x) for x in tk[2:5]])
            cur = []
        elif tk[0] == "vertex":
            cur.append([float(x) for x in tk[1:4]])
        elif tk[0] == "endfacet":
            if len(cur) != 3:
                raise ValueError("facet with %d vertices" % len(cur))
            tris.append(cur)
    return tris, normals


def parse_stl_bin(raw):
    (n,) = struct.unpack("<i", raw[80:84])
    if len(raw) != 84 + 50 * n:
        raise ValueError("binary STL length %d does not match %d facets" % (len(raw), n))
    tris, normals = [], []
    for i in range(n):
        rec = struct.unpack("<12f", raw[84 + 50 * i:84 + 50 * i + 48])
        normals.append(list(rec[0:3]))
        tris.append([list(rec[3:6]), list(rec[6:9]), list(rec[9:12])])
    return tris, normals


def _cross(a, b):
    return [a[1] * b[2] - a[2] * b[1], a[2] * b[0] - a[0] * b[2], a[0] * b[1] - a[1] * b[0]]


# ---------------------------------------------------------------------------------------------
# execution

def _trim_curve(g, t):
    from geomdl import freeform
    if t["type"] == "spline":
        c = g.BSpline.Curve()
        c.degree = 1
        c.ctrlpts = [list(p) for p in t["points"]]
        npt = len(t["points"])
        c.knotvector = [0.0, 0.0] + [i / float(npt - 1) for i in range(1, npt - 1)] + [1.0, 1.0]
        c.delta = 0.01
    else:
        c = freeform.Freeform()
        c.evaluate(points=[list(p) for p in t["points"]])
    return c


def _mesh_of(s, id_offset=0):
    V = [[v.id, list(v.uv), list(v.data)] for v in s.vertices]
    F = [list(f.vertex_ids) for f in s.faces]
    return V, F


def _divisors(nu, nv):
    return [d for d in range(1, max(nu, nv)) if (nu - 1) % d == 0 and (nv - 1) % d == 0] or [1]


class SurfState:
    def __init__(self, obj, spec):
        self.obj = obj
        self.spec = spec
        self.tess_before = False        # a tessellation happened at some point
        self.dirty_since = False        # ... and something intervened since
        self.trim = spec.get("trim")
        self.spacing = None             # vertex spacing of the mesh the surface currently holds, when the model knows it


def run(script, ctx):
    g = shapes.G.load()
    from geomdl import freeform
    simpool.install()
    kn = script["knobs"]
    simpool.configure(h64(script.get("seed", 0), script.get("run", 0), "pool", kn["sched"]), kn["chunk"], kn.get("pool_faults", []), ctx)
    disk = simdisk.SimDisk(h64(script.get("seed", 0), script.get("run", 0)), kn["bufsize"])
    disk.ctx = ctx
    simdisk.install(disk)
    world = []
    for spec in script["objects"]:
        o = shapes.build(spec, normalize_kv=False) if spec.get("aL") else shapes.build(spec)
        if spec.get("aL"):
            ctx.probe("unnormalised_surface")
        o.sample_size = 14 if spec.get("trim") else 4      # fine enough for cells deep inside / well outside a trim to exist
        st = SurfState(o, spec)
        if st.trim:
            o.trims = [_trim_curve(g, st.trim)]
            o.tessellator = g.tessellate.TrimTessellate()
        elif spec.get("trim_tessellator_without_trims"):
            o.tessellator = g.tessellate.TrimTessellate()
            ctx.probe("trim_tessellator_without_trims")
        world.append(st)
    cont = g.multi.SurfaceContainer()
    cont.sample_size = 4
    members = []
    ctx.log("built", [(s.spec["rational"], s.spec["sizes"], bool(s.trim)) for s in world])

    def touched(st):
        if st.tess_before:
            st.dirty_since = True

    def about_to_observe(st):
        if st.tess_before and st.dirty_since:
            ctx.nontrivial = True
            ctx.probe("mesh_observed_after_intervening_change")

    for idx, op in enumerate(script["ops"]):
        ctx.step = idx
        k = op["op"]
        if not world:
            ctx.ops_skipped += 1
            continue
        i = op.get("obj", 0) % len(world)
        st = world[i]
        s = st.obj
        sig = dict(op=k, trimmed=bool(st.trim))
        if k == "sample":
            nu, nv = op["n"]
            if op["how"] == "sample_size":
                s.sample_size = nu
                nv = nu
            elif op["how"] == "uv":
                s.sample_size_u = nu
                s.sample_size_v = nv
            else:
                s.delta = (1.0 / nu, 1.0 / nv)
            ctx.log("sample", i, nu, nv)
            ctx.ops_executed += 1
            touched(st)
        elif k == "tessellate":
            nu, nv = s.sample_size
            divs = _divisors(nu, nv)
            sp = divs[op["spacing"] % len(divs)]
            was = s.tessellator.is_tessellated()
            try:
                s.tessellate(vertex_spacing=sp, force=op["force"])
                V, F = _mesh_of(s)
            except Exception as e:
                ctx.fail("tessellate_failed", "surface #%d tessellate(vertex_spacing=%d, force=%r) with sample size %r raised %r" % (i, sp, op["force"], (nu, nv), e), **sig)
            ctx.log("tessellate", i, sp, op["force"])
            ctx.ops_executed += 1
            about_to_observe(st)
            check_mesh(ctx, V, F, s, "surface #%d after tessellate(vertex_spacing=%d, force=%r) with sample size %r" % (i, sp, op["force"], (nu, nv)), sig,
                       expect_spacing=sp if (op["force"] or not was) else st.spacing, sample=(nu, nv), trim=st.trim,
                       id_offset=V[0][0] if V else 0)
            if op["force"] or not was:
                st.spacing = sp
            st.tess_before, st.dirty_since = True, False
            if sp > 1:
                ctx.probe("vertex_spacing_gt_1")
            ctx.state("tess:%s:%s" % (bool(st.trim), sp > 1))
        elif k == "read":
            nu, nv = s.sample_size
            about_to_observe(st)
            if not s.tessellator.is_tessellated():
                st.spacing = 1          # reading the mesh of a surface that holds none tessellates with the default spacing
            try:
                V, F = _mesh_of(s)
            except Exception as e:
                ctx.fail("tessellate_failed", "reading vertices/faces of surface #%d with sample size %r raised %r" % (i, (nu, nv), e), **sig)
            ctx.log("read", i, len(V), len(F))
            ctx.ops_executed += 1
            check_mesh(ctx, V, F, s, "surface #%d vertices/faces read with sample size %r" % (i, (nu, nv)), sig, sample=(nu, nv), trim=st.trim,
                       id_offset=V[0][0] if V else 0, expect_spacing=st.spacing)
            st.tess_before, st.dirty_since = True, False
        elif k == "copy":
            # a deep copy (or the out-of-place transform, which is one) joins the world as a surface of its own: from here on the
            # two are tessellated, read and exported independently - neither may show the other's mesh
            if len(world) >= 4:
                ctx.ops_skipped += 1
                continue
            import copy as _copy
            c = _copy.deepcopy(s) if op.get("how") != "translate" else g.operations.translate(s, op["vec"])
            ns = SurfState(c, dict(st.spec))
            ns.trim = st.trim
            ns.tess_before, ns.dirty_since = st.tess_before, True
            ns.spacing = None
            world.append(ns)
            ctx.probe("surface_copied:" + str(op.get("how")))
            ctx.log("copy", i, op.get("how"))
            ctx.ops_executed += 1
        elif k == "edit":
            rng = Rng(op["seed"], "edit")
            spec = st.spec
            P = shapes.gen_points(rng, len(spec["P"]), 3)
            Wt = shapes.gen_weights(rng, len(P)) if spec["rational"] else None
            s.set_ctrlpts([[c * w for c in p] + [w] for p, w in zip(P, Wt)] if spec["rational"] else P, *spec["sizes"])
            ctx.log("edit", i)
            ctx.ops_executed += 1
            touched(st)
        elif k == "add_trim":
            # a trim curve is added to a surface that uses the trim-aware tessellator and has ALREADY been tessellated: the mesh
            # read afterwards omits the trimmed region (un-normalised surfaces are left alone: their trims live on another domain)
            if not isinstance(s.tessellator, g.tessellate.TrimTessellate) or st.spec.get("aL") or (st.trim and op["how"] != "setter"):
                ctx.ops_skipped += 1
                continue
            if st.trim:
                # the trims property is ASSIGNED a new list: the surface then has the new trim only
                ctx.probe("trim_list_replaced_through_the_setter")
            s.sample_size = op["n"]
            _ = _mesh_of(s)
            c_ = _trim_curve(g, op["trim"])
            if op["how"] == "setter":
                s.trims = [c_]
            else:
                s.add_trim(c_)
            st.trim = op["trim"]
            if not s.tessellator.is_tessellated():
                st.spacing = 1
            else:
                st.spacing = 1      # the mesh read before the trim was added had the default spacing
            nu, nv = s.sample_size
            V, F = _mesh_of(s)
            ctx.log("add_trim", i, op["how"], nu, len(V), len(F))
            ctx.ops_executed += 1
            ctx.probe("trim_added_to_a_tessellated_surface")
            check_mesh(ctx, V, F, s, "surface #%d after a trim was added to it (it had been tessellated before, sample size %r)" % (i, (nu, nv)),
                       dict(op=k, trimmed=True), sample=(nu, nv), trim=st.trim, id_offset=V[0][0] if V else 0, expect_spacing=1)
            st.tess_before, st.dirty_since = True, False
        elif k == "direct":
            # the tessellation component used on its own, on the sample grid of the surface (documented usage of geomdl.tessellate):
            # nothing re-evaluates the vertices afterwards, the positions are the sample points themselves
            tw = shapes.twin(s)
            nu, nv = tw.sample_size
            pts = tw.evalpts
            divs = _divisors(nu, nv)
            sp = divs[op["spacing"] % len(divs)]
            try:
                if op["via"] == "function":
                    vl, fl_ = g.tessellate.make_triangle_mesh(pts, nu, nv, vertex_spacing=sp)
                else:
                    comp = g.tessellate.TriangularTessellate()
                    comp.tessellate(pts, size_u=nu, size_v=nv, vertex_spacing=sp)
                    vl, fl_ = comp.vertices, comp.faces
                V = [[v.id, list(v.uv), list(v.data)] for v in vl]
                F = [list(f.vertex_ids) for f in fl_]
            except Exception as e:
                ctx.fail("tessellate_failed", "direct use of the triangular tessellation (%s) on a %dx%d sample grid, vertex_spacing=%d raised %r" % (
                    op["via"], nu, nv, sp, e), op=k, trimmed=False)
            ctx.log("direct", i, op["via"], nu, nv, sp)
            ctx.ops_executed += 1
            ctx.probe("tessellator_used_directly" + (":spacing_gt_1" if sp > 1 else ""))
            check_mesh(ctx, V, F, tw, "direct triangular tessellation (%s) of the %dx%d sample grid of surface #%d, vertex_spacing=%d" % (op["via"], nu, nv, i, sp),
                       dict(op=k, trimmed=False), expect_spacing=sp, sample=(nu, nv), id_offset=V[0][0] if V else 0)
        elif k == "subeval":
            a_, b_, c_, d_ = op["range"]
            (ulo, uhi), (vlo, vhi) = s.domain
            kw = {}
            if "u" in op["dirs"]:
                kw.update(start_u=ulo + a_ * (uhi - ulo), stop_u=ulo + b_ * (uhi - ulo))
            if "v" in op["dirs"]:
                kw.update(start_v=vlo + c_ * (vhi - vlo), stop_v=vlo + d_ * (vhi - vlo))
            s.evaluate(**kw)
            ctx.log("subeval", i, sorted(kw.items()))
            ctx.ops_executed += 1
            ctx.probe("partial_domain_evaluation_before_mesh")
            touched(st)
        elif k == "bad_tessellate":
            # a tessellation request the library cannot carry out: whatever it does with it (raise, ignore), the next
            # valid request must again produce a valid mesh of the current surface
            if op["after_reset"]:
                nu, nv = s.sample_size
                s.sample_size_u = nu       # re-applying the sampling drops the current mesh, as the exporters do
            try:
                if op["how"] == "container_spacing_zero" and members:
                    cont.tessellate(vertex_spacing=0)
                else:
                    s.tessellate(vertex_spacing=0 if op["how"] != "spacing_negative" else -1, force=True)
                outcome = "returned"
            except Exception as e:
                outcome = type(e).__name__
            st.spacing = None
            for m in members:
                world[m].spacing = None
            ctx.fault("failing_tessellate_call")
            ctx.log("bad_tessellate", i, op["how"], outcome)
            ctx.ops_executed += 1
            touched(st)
            for m in members:
                touched(world[m])
        elif k == "quad":
            nu, nv = s.sample_size
            qt = g.tessellate.QuadTessellate()
            pts = s.evalpts
            qt.tessellate(pts, size_u=nu, size_v=nv)
            ctx.log("quad", i, nu, nv)
            ctx.ops_executed += 1
            qsig = dict(op="quad", trimmed=False)
            if len(qt.vertices) != nu * nv or len(qt.faces) != (nu - 1) * (nv - 1):
                ctx.fail("mesh_invalid", "quad tessellation of a %dx%d sample grid has %d vertices / %d quads" % (nu, nv, len(qt.vertices), len(qt.faces)), check="counts", **qsig)
            for kk, v in enumerate(qt.vertices):
                if v.id != kk:
                    ctx.fail("mesh_invalid", "quad tessellation: vertex ids not consecutive (position %d has id %r)" % (kk, v.id), check="vertex_ids", **qsig)
                ok, why = close(list(v.data), list(pts[kk]), 1e-12)
                if not ok:
                    ctx.fail("vertex_off_surface", "quad tessellation: vertex %d is not sample point %d" % (kk, kk), check="on_surface", **qsig)
            seen = {}
            for q in qt.faces:
                ids = list(q.data)
                if len(ids) != 4 or any(x < 0 or x >= nu * nv for x in ids) or len(set(ids)) != 4:
                    ctx.fail("mesh_invalid", "quad %r references invalid vertices" % (ids,), check="face_index_range", **qsig)
                iu = sorted({x // nv for x in ids})
                jv = sorted({x % nv for x in ids})
                if len(iu) != 2 or len(jv) != 2 or iu[1] - iu[0] != 1 or jv[1] - jv[0] != 1:
                    ctx.fail("mesh_invalid", "quad %r is not one cell of the sample grid" % (ids,), check="cell_tiling", **qsig)
                # consistent orientation: cyclic order around the cell
                cyc = [(x // nv - iu[0], x % nv - jv[0]) for x in ids]
                area = sum(cyc[a][0] * cyc[(a + 1) % 4][1] - cyc[(a + 1) % 4][0] * cyc[a][1] for a in range(4))
                seen.setdefault((iu[0], jv[0]), []).append(area)
            if len(seen) != (nu - 1) * (nv - 1) or any(len(v) != 1 for v in seen.values()) or len({v[0] > 0 for v in seen.values()}) != 1 \
                    or any(abs(v[0]) != 2 for v in seen.values()):
                ctx.fail("mesh_invalid", "quad tessellation does not tile the sample grid exactly once with consistent orientation", check="cell_tiling", **qsig)
            ctx.probe("quad_checked")
        elif k == "cadd":
            if i in members or len(members) >= 4:
                ctx.ops_skipped += 1
                continue
            cont.add(s)
            members.append(i)
            ctx.log("cadd", i)
            ctx.ops_executed += 1
        elif k == "csample":
            cont.sample_size = op["n"]
            ctx.log("csample", op["n"])
            ctx.ops_executed += 1
            for m in members:
                touched(world[m])
        elif k == "ctessellator":
            if not members:
                ctx.ops_skipped += 1
                continue
            # the caller hands the container a tessellation component; it may be a fresh one or one that has already been
            # used on another surface (and still holds that surface's mesh). Either way the container keeps describing
            # its own surfaces.
            trimmed_member = any(world[m].trim for m in members)
            cls = g.tessellate.TrimTessellate if (op["cls"] == "trim" or trimmed_member) else g.tessellate.TriangularTessellate
            comp = cls()
            if op["used"]:
                donor = shapes.twin(world[op["donor"] % len(world)].obj)
                donor.sample_size = 3
                donor.tessellator = comp
                donor.tessellate()
                ctx.probe("container_given_used_tessellator")
            nv0 = len(comp.vertices)
            cont.tessellator = comp
            if op["used"] and (len(comp.vertices) != nv0 or len(donor.tessellator.vertices) != nv0):
                ctx.fail("mesh_invalid", "handing a tessellation component that holds the mesh of another surface (%d vertices) to the container changed "
                         "that mesh: the other surface's component now reports %d vertices" % (nv0, len(donor.tessellator.vertices)),
                         check="donor_mesh_kept", op=k, trimmed=False)
            ctx.log("ctessellator", cls.__name__, op["used"])
            ctx.ops_executed += 1
            for m in members:
                touched(world[m])
        elif k == "ctess":
            if not members:
                ctx.ops_skipped += 1
                continue
            kw = {"delta": op["delta"], "force": op["force"]}
            if op["num_procs"] > 1:
                kw["num_procs"] = op["num_procs"]
            fired0 = dict(ctx.faults)
            redo = [m for m in members if op["force"] or not world[m].obj.tessellator.is_tessellated() or
                    (op["delta"] and list(world[m].obj.delta) != list(cont.delta))]
            try:
                cont.tessellate(**kw)
                outcome = "returned"
                for m in redo:
                    world[m].spacing = 1     # the element was (re-)tessellated by the container with the default spacing
            except Exception as e:
                outcome = "raised:" + type(e).__name__
            ctx.log("ctess", op["num_procs"], op["delta"], op["force"], outcome.split(":")[0])
            ctx.ops_executed += 1
            faulted = ctx.faults.get("worker_raises", 0) != fired0.get("worker_raises", 0)
            if outcome != "returned":
                if not faulted:
                    ctx.fail("tessellate_failed", "fault-free container.tessellate(%r) %s" % (kw, outcome), op=k, trimmed=False)
                ctx.probe("container_tessellate_hit_by_worker_fault")
                for m in members:
                    touched(world[m])
                    if op["num_procs"] <= 1:
                        world[m].spacing = None      # (cannot happen fault-free; stay on the safe side)
                continue
            for m in members:
                about_to_observe(world[m])
            _check_container(ctx, cont, members, world, "container after tessellate(%r)" % (kw,), dict(op=k, trimmed=any(world[m].trim for m in members)),
                             fresh_sample=tuple(cont.sample_size) if (op["force"] and op["delta"]) else None)
            for m in members:
                world[m].tess_before, world[m].dirty_since = True, False
            ctx.state("ctess:%d:%s" % (op["num_procs"], op["force"]))
        elif k == "cread":
            if not members:
                ctx.ops_skipped += 1
                continue
            for m in members:
                if not world[m].obj.tessellator.is_tessellated() or list(world[m].obj.delta) != list(cont.delta):
                    world[m].spacing = 1
                about_to_observe(world[m])
            _check_container(ctx, cont, members, world, "container vertices/faces read", dict(op=k, trimmed=any(world[m].trim for m in members)))
            ctx.ops_executed += 1
            for m in members:
                world[m].tess_before, world[m].dirty_since = True, False
        elif k == "export":
            _do_export(ctx, g, disk, op, idx, st, i, cont, members, world, about_to_observe)
        else:
            ctx.ops_skipped += 1
    ctx.extra["sigs"] = simpool.STATS["signatures"][:6]
    ctx.sim_time += simpool.STATS["sim_time"]
    for s_ in simpool.STATS["signatures"]:
        ctx.state("sched:" + s_)
    ctx.extra["seam_bypassed"] = disk.bypass


def _check_container(ctx, cont, members, world, what, sig, fresh_sample=None):
    for m in members:
        # reading the container mesh pushes the container delta into elements that differ and tessellates what holds no mesh
        if not world[m].obj.tessellator.is_tessellated() or list(world[m].obj.delta) != list(cont.delta):
            world[m].spacing = 1
    V = [[v.id, list(v.uv), list(v.data)] for v in cont.vertices]
    F = [list(f.vertex_ids) for f in cont.faces]
    ctx.log("cmesh", len(V), len(F))
    for kk, (vid, uv, data) in enumerate(V):
        if vid != kk:
            ctx.fail("mesh_invalid", "%s: container vertex ids are not consecutive across elements: position %d carries id %r" % (what, kk, vid),
                     check="container_vertex_ids", **sig)
    for t in F:
        if any(x < 0 or x >= len(V) for x in t):
            ctx.fail("mesh_invalid", "%s: container face %r does not index into the concatenated vertex list (%d vertices)" % (what, t, len(V)),
                     check="container_face_index_range", **sig)
    # split by element: the container list is the concatenation of the element meshes in order; every element mesh
    # starts with its (0, 0) corner vertex (the statement excludes trims touching the boundary)
    starts = [kk for kk, (vid, uv, data) in enumerate(V) if abs(uv[0]) < 1e-12 and abs(uv[1]) < 1e-12]
    if (len(starts) != len(members) or (starts and starts[0] != 0)) and any(world[m].trim for m in members):
        # a coarse trimmed element mesh may lose its corner vertex or be empty altogether: the split cannot be judged
        ctx.probe("container_partition_not_judged_trimmed")
        return
    if len(starts) != len(members) or (starts and starts[0] != 0):
        ctx.fail("mesh_invalid", "%s: the container mesh does not consist of %d element meshes (corner vertices found at %r)" % (what, len(members), starts[:6]),
                 check="container_concat", **sig)
    bounds = starts + [len(V)]
    off_f = 0
    for pos, m in enumerate(members):
        st = world[m]
        elem = cont[pos]
        lo, hi = bounds[pos], bounds[pos + 1]
        subV = V[lo:hi]
        subF = [t for t in F if lo <= min(t) and max(t) < hi]
        if F[off_f:off_f + len(subF)] != subF:
            ctx.fail("mesh_invalid", "%s: faces of element %d are not stored contiguously / reference vertices of several elements" % (what, pos),
                     check="container_concat", **sig)
        off_f += len(subF)
        check_mesh(ctx, subV, subF, elem, "%s, element %d (surface #%d)" % (what, pos, m), sig,
                   sample=tuple(elem.sample_size), trim=st.trim, id_offset=lo,
                   expect_spacing=1 if fresh_sample else st.spacing)
    if off_f != len(F):
        ctx.fail("mesh_invalid", "%s: %d container faces do not belong to exactly one element" % (what, len(F) - off_f), check="container_concat", **sig)
    ctx.probe("container_mesh_checked")


def _do_export(ctx, g, disk, op, idx, st, i, cont, members, world, about_to_observe):
    fmt = op["fmt"]
    if op["target"] == "container":
        if not members:
            ctx.ops_skipped += 1
            return
        target = cont
        surfs = [(cont[pos], world[m]) for pos, m in enumerate(members)]
    else:
        target = st.obj
        surfs = [(st.obj, st)]
    sig = dict(op="export_" + fmt, trimmed=any(s_.trim for _, s_ in surfs))
    # choose a spacing that divides n-1 for every surface involved (after update_delta the container sizes apply)
    if op["update_delta"] and op["target"] == "container":
        sizes = [tuple(cont.sample_size)] * len(surfs)
    else:
        sizes = [tuple(o.sample_size) for o, _ in surfs]
    common = [d for d in range(1, 12) if all((a - 1) % d == 0 and (b - 1) % d == 0 for a, b in sizes)] or [1]
    sp = common[op["spacing"] % len(common)]
    kw = {"vertex_spacing": sp, "update_delta": op["update_delta"]}
    if fmt == "obj":
        for o_ in op.get("obj_opts", []):
            kw[o_] = True
    for _, s_ in surfs:
        about_to_observe(s_)
    was_tessellated = [bool(o.tessellator.is_tessellated()) for o, _ in surfs]
    if op["target"] == "container" and target is cont and op.get("pre") and len(members) >= 1:
        # the caller has walked part of the container before (a membership test, next(iter(...)), a loop left with break)
        if op["pre"] == "contains":
            _ = world[members[len(members) // 2]].obj in cont
        elif op["pre"] == "next":
            _ = next(iter(cont))
        else:
            for elem_ in cont:
                if elem_ is world[members[min(1, len(members) - 1)]].obj:
                    break
        ctx.probe("container_partially_traversed_before_export")
    path = "/data/mesh_%d.%s" % (idx % 3, fmt)
    disk.arm(op.get("faults", []) if op["to"] == "file" else [])
    content, outcome = None, "returned"
    try:
        if op["to"] == "str":
            if fmt == "obj":
                content = g.exchange.export_obj_str(target, **kw)
            elif fmt == "off":
                content = g.exchange.export_off_str(target, **kw)
            else:
                content = g.exchange.export_stl_str(target, binary=(fmt == "stl_bin"), **kw)
        else:
            if fmt == "obj":
                g.exchange.export_obj(target, path, **kw)
            elif fmt == "off":
                g.exchange.export_off(target, path, **kw)
            else:
                g.exchange.export_stl(target, path, binary=(fmt == "stl_bin"), **kw)
    except SimCrash:
        outcome = "crash"
    except Exception as e:
        outcome = "raised:" + type(e).__name__ + ":" + str(e)[:200]
    fired = list(disk.fired)
    disk.disarm()
    ctx.log("export", fmt, op["target"], sp, op["update_delta"], op["to"], outcome.split(":")[0], fired)
    ctx.ops_executed += 1
    for (_, s_), was in zip(surfs, was_tessellated):
        s_.tess_before, s_.dirty_since = True, False
        if op["update_delta"] or not was:
            s_.spacing = sp          # the writers tessellate before they touch the disk
    if fired and outcome != "returned":
        ctx.probe("mesh_export_hit_by_fault")
        return
    if fired:
        # the export returned normally although a write / close error fired underneath it: nothing tells the caller to retry, so
        # the file is checked like any other acknowledged one
        ctx.probe("mesh_export_returned_normally_although_a_fault_fired")
    if outcome != "returned":
        ctx.fail("export_failed", "fault-free export_%s(%s, vertex_spacing=%d, update_delta=%r) %s" % (fmt, op["target"], sp, op["update_delta"], outcome), **sig)
    if op["to"] == "file":
        raw = disk.read_bytes(path)
        content = raw if fmt == "stl_bin" else raw.decode("utf-8")
    # the mesh the objects report now (the writers tessellate the surfaces they write)
    expV, expF = [], []
    for (o, s_), was in zip(surfs, was_tessellated):
        V = [[v.id, list(v.uv), list(v.data)] for v in o.tessellator.vertices]
        F = [list(f.vertex_ids) for f in o.tessellator.faces]
        # the mesh the writer produced is the tessellation for the requested vertex spacing whenever the writer had to
        # tessellate: it re-applies the sampling (update_delta) or the surface held no mesh. (With update_delta=False an
        # existing mesh is legitimately re-used, whatever its spacing.)
        fresh = op["update_delta"] or not was
        if fresh:
            s_.spacing = sp
        if V or not s_.trim:
            check_mesh(ctx, V, F, o, "mesh written by export_%s(vertex_spacing=%d, update_delta=%r)" % (fmt, sp, op["update_delta"]), sig,
                       expect_spacing=sp if fresh else s_.spacing, sample=tuple(o.sample_size), trim=s_.trim, id_offset=V[0][0] if V else 0)
        ids = [v[0] for v in V]
        base = ids[0] if ids else 0
        # element ids may legitimately be global after a container tessellation; the file must index the concatenated list
        loc = {vid: kk for kk, vid in enumerate(ids)}
        if len(loc) != len(ids):
            ctx.fail("mesh_invalid", "export_%s: surface reports duplicate vertex ids" % fmt, check="vertex_ids", **sig)
        for t in F:
            if any(x not in loc for x in t):
                ctx.fail("mesh_invalid", "export_%s: face %r references a vertex the surface does not report" % (fmt, t), check="face_index_range", **sig)
            expF.append([loc[x] + len(expV) for x in t])
        expV += [v[2] for v in V]
    try:
        obj_extra = None
        if fmt == "obj":
            fV, fF, obj_extra = parse_obj(content)
        elif fmt == "off":
            fV, fF, _ = parse_off(content)
        elif fmt == "stl_ascii":
            tris, normals = parse_stl_ascii(content)
        else:
            tris, normals = parse_stl_bin(content)
    except Exception as e:
        ctx.fail("file_invalid", "export_%s output does not parse: %r" % (fmt, e), check="parse", **sig)
    if fmt in ("obj", "off"):
        if len(fV) != len(expV) or len(fF) != len(expF):
            ctx.fail("file_mismatch", "export_%s wrote %d vertices / %d faces, the mesh has %d / %d" % (fmt, len(fV), len(fF), len(expV), len(expF)), check="counts", **sig)
        for t in fF:
            if any(x < 0 or x >= len(fV) for x in t):
                ctx.fail("file_mismatch", "export_%s wrote face %r (0-based) with %d vertices in the file" % (fmt, t, len(fV)), check="file_index_range", **sig)
        ok, why = close(fV, expV, 1e-12)
        if not ok:
            ctx.fail("file_mismatch", "export_%s vertex positions differ from the mesh: %s" % (fmt, why), check="positions", **sig)
        if obj_extra is not None:
            opts = op.get("obj_opts", [])
            for key, flag in (("vp", "parametric_vertices"), ("vn", "vertex_normals")):
                if flag in opts and len(obj_extra[key]) != len(expV):
                    ctx.fail("file_mismatch", "export_obj(%s=True) wrote %d '%s' lines for %d vertices" % (flag, len(obj_extra[key]), key, len(expV)),
                             check="counts", **sig)
            if "parametric_vertices" in opts:
                uvs_ = [uv for o, _ in surfs for uv in ([list(v.uv) for v in o.tessellator.vertices])]
                ok, why = close(obj_extra["vp"], uvs_, 1e-12, 1.0)
                if not ok:
                    ctx.fail("file_mismatch", "export_obj parameter-space vertices differ from the mesh's stored parameters: %s" % why, check="positions", **sig)
        if fF != expF:
            bad = next(kk for kk, (a, b) in enumerate(zip(fF, expF)) if a != b)
            ctx.fail("file_mismatch", "export_%s face %d is %r in the file, %r in the mesh" % (fmt, bad, fF[bad], expF[bad]), check="faces", **sig)
    else:
        if len(tris) != len(expF):
            ctx.fail("file_mismatch", "export_%s wrote %d facets, the mesh has %d" % (fmt, len(tris), len(expF)), check="counts", **sig)
        tol = 1e-5 if fmt == "stl_bin" else 1e-12
        for kk, (tri, nrm, ef) in enumerate(zip(tris, normals, expF)):
            exp_tri = [expV[x] for x in ef]
            ok, why = close(tri, exp_tri, tol)
            if not ok:
                ctx.fail("file_mismatch", "export_%s facet %d vertices differ from the mesh: %s" % (fmt, kk, why), check="positions", **sig)
            e1 = [b - a for a, b in zip(exp_tri[0], exp_tri[1])]
            e2 = [b - a for a, b in zip(exp_tri[0], exp_tri[2])]
            gn = _cross(e1, e2)
            gl = math.sqrt(sum(c * c for c in gn))
            nl = math.sqrt(sum(c * c for c in nrm))
            if gl < 1e-9:
                continue
            if nl < 1e-12:
                ctx.fail("file_mismatch", "export_%s facet %d has a zero normal but a non-degenerate triangle" % (fmt, kk), check="normals", **sig)
            cosang = sum(a * b for a, b in zip(gn, nrm)) / (gl * nl)
            if cosang < 1 - 1e-4:
                ctx.fail("file_mismatch", "export_%s facet %d normal %r is not parallel to / oriented like the facet's geometric normal %r" % (fmt, kk, nrm, gn),
                         check="normals", **sig)
    if op["target"] == "container" and target is cont and op["update_delta"] and sp == 1 and not any(s_.trim for _, s_ in surfs):
        # "exports of containers describe exactly this mesh": the file must have as many vertices / facets as the container's own
        # vertices / faces views, read with the same sampling right afterwards
        cV, cF = list(cont.vertices), list(cont.faces)
        for m in members:
            world[m].spacing = 1
        n_file_v = len(fV) if fmt in ("obj", "off") else None
        n_file_f = len(fF) if fmt in ("obj", "off") else len(tris)
        ctx.probe("container_export_compared_with_container_mesh")
        if (n_file_v is not None and n_file_v != len(cV)) or n_file_f != len(cF):
            ctx.fail("file_mismatch", "export_%s of the container (sample size %r) wrote %s vertices / %d faces, the container's own vertices / faces views "
                     "have %d / %d" % (fmt, tuple(cont.sample_size), n_file_v, n_file_f, len(cV), len(cF)), check="container_vs_export", **sig)
    ctx.probe("mesh_file_checked:" + fmt)
