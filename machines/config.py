"""C17 - results do not depend on configuration choices (span search, evaluator variant, knot normalisation
with affine ranges, number of worker processes, GEOMDL_CACHE_SIZE).

One simulated run = one seeded *workload* (shapes + a history of queries and edits) executed
  (a) once under the baseline configuration (linear span search, default evaluator, normalised knots,
      num_procs=1, GEOMDL_CACHE_SIZE unset) in a pristine process, and
  (b) under 2-5 sampled configuration vectors, each in its own pristine forked process, pooled operations
      running on SimPool under a seeded schedule (worker assignment, per-item durations, chunk size) and, in a
      separate population, with injected worker faults.
Every observable of (b) must equal (a) after the affine mapping the statement itself names.
"""
import json
import os
import pickle
import sys
import traceback

from sim import shapes, pool as simpool
from sim.core import Rng, close, h64

PROPS = ["C17"]
BUDGET = {"C17": {"quick": {"runs": 4000, "wall_cap_s": 150}, "thorough": {"runs": 50000, "wall_cap_s": 1800}}}
RULE = {"C17": "one case = one seeded workload (1-3 shapes, optional surface container, 3-14 queries/edits: evaluation through every "
               "entry point, derivatives, insert/remove/refine, split/decompose, tangent/normal, surface and container tessellation, "
               "voxelisation) executed under the baseline and under 2-5 sampled configuration vectors x simulated pool schedules in "
               "separate pristine processes; non-trivial = at least one configuration differs from the baseline in a dimension that "
               "the workload actually exercises (a pooled operation ran on >= 2 simulated workers with >= 2 chunks, or an "
               "un-normalised / binary-search / alternative-evaluator object answered >= 3 queries); distinct = distinct "
               "operation-list + configuration digest"}
ASSUMPTIONS = {"C17": [
    "un-normalised variants use knot ranges a + L*[0,1] with dyadic a in {-2,0,1,3.5} and L in {0.5,1,2,4} per direction; parameters are "
    "mapped u -> a + L*u, knot vectors and vertex uv are mapped back, k-th parametric derivatives are multiplied by L^k (chain rule), "
    "knot vectors of split pieces are compared after normalising each piece to [0,1]",
    "derivative tables are compared up to the requested total order only",
    "observables are compared at 1e-8 relative to the data scale",
    "under an injected worker fault the faulted pooled call may raise (then nothing is compared for it) but may not return different "
    "data; every later operation is compared as usual",
    "alternative evaluators exist for non-rational curves and surfaces only"]}
COMPONENTS = {"real": ["all of geomdl (working tree) incl. multi.SurfaceContainer.tessellate, voxelize, evaluators, helpers",
                       "pickling of tasks/results (ForkingPickler)", "forked worker address spaces", "functools.lru_cache memos",
                       "GEOMDL_CACHE_SIZE read at (re-)import"],
              "stub": ["process-pool scheduler: SimPool (which worker takes which chunk, item durations, completion order, chunk size)",
                       "process restart for the baseline: module purge + re-import instead of exec"]}

TOL = 1e-8
OP_TIMEOUT_S = float(os.environ.get("VERIF_OP_TIMEOUT_S", "20"))


class OpTimeout(Exception):
    pass

A_VALUES = [-2.0, 0.0, 1.0, 3.5, -1.0, 1.0 / 3000.0]      # 1/3000: a small first knot that is not a multiple of 1e-18 (the evaluators
#                                                           round their sample parameters to 18 decimals - below the first knot)
L_VALUES = [0.5, 1.0, 2.0, 4.0, 1048576.0]      # 2**20: a parameter range in other units (raw derivatives shrink by 1/L per order)
BASELINE = {"span": "linear", "evaluator": "default", "normalize": True, "aL": [[0.0, 1.0]] * 3, "num_procs": 1,
            "sched": 0, "chunk": "default", "faults": []}


def prepare():
    shapes.G.load()
    simpool.install()


# ---------------------------------------------------------------------------------------------
# generation

def gen(prop, stream, tier, avoid):
    rng = stream("ops")
    kn = stream("knobs")
    cf = stream("configs")
    knobs = {"cache_size": kn.pick([None, None, "1", "16", "1024"]),
             # usage: all objects of one class use ONE evaluator instance (obj2.evaluator = obj1.evaluator)
             "share_evaluator": kn.chance(0.25)}
    pooled = kn.chance(0.55)
    nobj = kn.pick([1, 1, 2, 3])
    objs = []
    for i in range(nobj):
        if pooled:
            kind = rng.weighted([("surface", 6), ("curve", 1), ("volume", 1)])
        else:
            kind = rng.weighted([("curve", 4), ("surface", 4), ("volume", 1.5)])
        spec = shapes.gen_shape(rng, kind=kind, max_size=6 if kind == "curve" else 5, max_degree=3,
                                dim=3 if (pooled or kind != "curve") else None)
        if objs and rng.chance(0.3):
            # a sibling of an earlier object: same kind, degrees, sizes and knot vectors (other control points); the caller
            # builds both from the SAME knot vector lists, as users do for patches of one model
            j = rng.randrange(len(objs))
            src = objs[j]
            spec = shapes.gen_shape(rng, kind=src["kind"], dim=src["dim"], degrees=list(src["degrees"]), sizes=list(src["sizes"]))
            spec["knots"] = [list(kv) for kv in src["knots"]]
            spec["share_kv_with"] = j if "share_kv_with" not in src else src["share_kv_with"]
        objs.append(spec)
    surf_idx = [i for i, s in enumerate(objs) if s["kind"] == "surface"]
    nops = kn.pick([3, 4, 5, 6, 8, 10, 14] + ([20, 28] if tier == "thorough" else []))
    W = {"eval": 3, "eval_list": 1.5, "sample": 2, "evalrange": 1.0, "delta": 1, "deriv": 3, "insert": 1.5, "remove": 0.8, "refine": 0.6, "remove_orig": 0.6,
         "split": 1, "decompose": 0.6, "tangent": 1, "normal": 0.8, "tessellate": 1.2, "voxelize": 1.2 if pooled else 0.3,
         "length": 0.5, "hodograph": 0.7, "find_ctrlpts": 0.7,
         "cadd": 2.5 if pooled and surf_idx else 0, "ctess": 3 if pooled and surf_idx else 0,
         "cread": 1.5 if pooled and surf_idx else 0, "edit_handle": 0.7 if pooled and surf_idx and "handle_after_pool" not in avoid else 0}
    weights = [(k, w * kn.uniform(0.4, 1.3)) for k, w in W.items() if w > 0]
    ops = []
    inserted = []
    if pooled and surf_idx:
        for i in surf_idx[:rng.randint(1, len(surf_idx))]:
            ops.append({"op": "cadd", "obj": i})
    for _ in range(nops):
        k = rng.weighted(weights)
        o = rng.randrange(nobj)
        t = [rng.randint(0, 32) / 32.0 for _ in range(3)]
        for d_ in range(len(objs[o]["knots"])):
            if rng.chance(0.3):
                t[d_] = rng.pick(objs[o]["knots"][d_])      # exactly on a knot (span search decisions live there)
        op = {"op": k, "obj": o}
        if k == "eval":
            op["t"] = t
        elif k == "eval_list":
            op["ts"] = [[rng.randint(0, 32) / 32.0 for _ in range(3)] for _ in range(rng.randint(1, 4))]
        elif k == "sample":
            op["n"] = rng.randint(2, 7)
        elif k == "evalrange":
            # evaluate(start=..., stop=...) on part of the domain; bounds in quarters of the domain (so that they fall on "nice"
            # values - knots, zero - of un-normalised ranges), per direction either given or left out
            op["n"] = rng.randint(2, 6)
            op["lo"], op["hi"] = [], []
            for _ in range(3):
                a_, b_ = sorted(rng.sample([0.0, 0.25, 0.5, 0.5, 0.75, 1.0], 2))
                if a_ == b_:
                    a_, b_ = 0.0, 0.5
                op["lo"].append(a_ if rng.chance(0.7) else None)
                op["hi"].append(b_ if rng.chance(0.7) else None)
        elif k == "delta":
            op["d"] = rng.pick([0.5, 0.25, 0.2, 0.125])
        elif k == "deriv":
            op["t"] = t
            op["order"] = rng.randint(0, 4)
        elif k == "insert":
            op["dir"] = rng.randrange(3)
            op["t"] = (2 * rng.randint(0, 63) + 1) / 128.0
            op["num"] = rng.pick([1, 1, 2])
            inserted.append((o, op["dir"], op["t"]))
        elif k == "remove":
            if not inserted:
                continue
            o2, d2, t2 = rng.pick(inserted)
            op.update(obj=o2, dir=d2, t=t2, num=1)
        elif k == "refine":
            op["dir"] = rng.randrange(3)
        elif k == "remove_orig":
            op["dir"] = rng.randrange(3)
            op["which"] = rng.randrange(6)
        elif k == "split":
            op["dir"] = rng.randrange(2)
            op["t"] = rng.randint(1, 31) / 32.0
            # float noise on the mapped parameter of an un-normalised configuration (0.3 * 3 is 0.8999999999999999): the same query
            op["noise"] = rng.pick([0, 0, 0, 1, -1, 2, -2])
        elif k in ("tangent", "normal", "hodograph", "find_ctrlpts"):
            op["t"] = t
        elif k == "tessellate":
            op["n"] = rng.randint(2, 6)
        elif k == "voxelize":
            op["grid"] = [rng.randint(2, 5) for _ in range(3)]
            op["target"] = rng.pick(["obj", "container"]) if (pooled and surf_idx) else "obj"
            op["n"] = rng.randint(3, 5)
            # optional keyword arguments of voxelize(): the in-out padding under either of its two names, cube voxels
            op["pad"] = rng.pick([None, None, ["tol", 0.0625], ["tol", 0.25], ["padding", 0.0625], ["padding", 0.25], ["tol", 1.0]])
            op["use_cubes"] = rng.chance(0.2)
        elif k == "ctess":
            op["delta"] = rng.chance(0.6)
            op["force"] = rng.chance(0.5)
            op["n"] = rng.randint(3, 5)
        elif k == "edit_handle":
            op["vec"] = [rng.dyadic(-4, 4, 4) for _ in range(3)]
        ops.append(op)
    if pooled and len(surf_idx) >= 2 and kn.chance(0.3):
        # motif: tessellate on the pool, give only some elements new work (new member / edit through the handle), tessellate again
        a, b = surf_idx[0], surf_idx[1]
        motif = [{"op": "cadd", "obj": a}, {"op": "ctess", "obj": a, "delta": kn.chance(0.7), "force": False, "n": kn.randint(3, 5)},
                 {"op": "cadd", "obj": b}]
        if len(surf_idx) >= 3:
            motif.append({"op": "cadd", "obj": surf_idx[2]})
        else:
            motif.append({"op": "edit_handle", "obj": b, "vec": [1.0, -0.5, 0.25]})
        motif += [{"op": "ctess", "obj": a, "delta": motif[1]["delta"], "force": False, "n": motif[1]["n"]}, {"op": "cread", "obj": a}]
        ops = [o for o in ops if o["op"] != "cadd"]
        at = kn.randint(0, len(ops))
        ops = ops[:at] + motif + ops[at:]
    # the same query again later in the same process (memoised helpers meet their own earlier entries)
    pure = [o_ for o_ in ops if o_["op"] in ("eval", "eval_list", "evalrange", "deriv", "tangent", "normal", "voxelize", "tessellate", "length",
                                             "hodograph", "find_ctrlpts", "sample")]
    for _ in range(kn.pick([0, 0, 1, 1, 2])):
        if pure:
            again = json.loads(json.dumps(kn.pick(pure)))
            ops.insert(kn.randint(0, len(ops)), again)
    vox = [j for j, o_ in enumerate(ops) if o_["op"] == "voxelize"]
    if vox and kn.chance(0.6):
        j = kn.pick(vox)
        ops.insert(j + 1, json.loads(json.dumps(ops[j])))      # the very same voxelisation twice in a row
    sibs = [(i, sp["share_kv_with"]) for i, sp in enumerate(objs) if "share_kv_with" in sp]
    if sibs and kn.chance(0.6):
        # motif: two objects built from the same knot vector lists; one of them loses a knot, the other one is queried afterwards
        b, a = kn.pick(sibs)
        if kn.chance(0.5):
            a, b = b, a
        d_ = kn.randrange(3)
        motif = [{"op": "remove_orig", "obj": a, "dir": d_, "which": kn.randrange(6)},
                 {"op": "eval", "obj": b, "t": [kn.randint(0, 32) / 32.0 for _ in range(3)]},
                 {"op": "eval", "obj": b, "t": [1.0, 1.0, 1.0]},
                 {"op": "sample", "obj": b, "n": kn.randint(3, 6)}]
        at = 0 if kn.chance(0.7) else kn.randint(0, len(ops))     # early: before other edits give the objects private lists
        ops = ops[:at] + motif + ops[at:]
    # ---- configuration vectors
    ncfg = kn.pick([2, 3, 3, 4, 5])
    configs = []
    fault_run = kn.chance(0.25) and pooled
    for ci in range(ncfg):
        c = dict(BASELINE, aL=[list(x) for x in BASELINE["aL"]], faults=[])
        dims = []
        if pooled and cf.chance(0.75):
            c["num_procs"] = cf.pick([2, 4, 8])
            c["sched"] = cf.randrange(1 << 30)
            c["chunk"] = cf.pick(["default", "default", "one", "all"])
            dims.append("num_procs")
        if cf.chance(0.35):
            c["span"] = "binsearch"
            dims.append("span")
        if cf.chance(0.3):
            c["evaluator"] = "alt"
            dims.append("evaluator")
        if cf.chance(0.35) and "unnormalised" not in avoid:
            c["normalize"] = False
            c["aL"] = [[cf.pick(A_VALUES), cf.pick(L_VALUES)] for _ in range(3)]
            dims.append("normalize")
        if not dims:
            c["span"] = "binsearch"
            dims.append("span")
        if fault_run and c["num_procs"] > 1:
            kind = cf.pick(["worker_raises", "worker_raises", "slow_worker", "late_result"])
            if kind == "worker_raises":
                c["faults"].append({"kind": kind, "call": cf.randint(1, 3), "item": cf.randint(0, 5), "when": cf.pick(["before", "after"])})
            elif kind == "slow_worker":
                c["faults"].append({"kind": kind, "worker": cf.randrange(8)})
            else:
                c["faults"].append({"kind": kind, "chunk": cf.randint(1, 4)})
        configs.append(c)
    return {"knobs": knobs, "objects": objs, "ops": ops, "configs": configs}


def simplify(script):
    if script["knobs"].get("cache_size") is not None:
        yield dict(script, knobs=dict(script["knobs"], cache_size=None))
    cfgs = script["configs"]
    if len(cfgs) > 1:
        for i in range(len(cfgs)):
            yield dict(script, configs=[cfgs[i]])
    for i, c in enumerate(cfgs):
        for dim, base in (("span", "linear"), ("evaluator", "default"), ("num_procs", 1), ("chunk", "default")):
            if c[dim] != base:
                c2 = dict(c)
                c2[dim] = base
                if dim == "num_procs":
                    c2["faults"] = []
                yield dict(script, configs=cfgs[:i] + [c2] + cfgs[i + 1:])
        if not c["normalize"]:
            yield dict(script, configs=cfgs[:i] + [dict(c, normalize=True, aL=[[0.0, 1.0]] * 3)] + cfgs[i + 1:])
            for d in range(3):
                if c["aL"][d] != [0.0, 1.0]:
                    aL = [list(x) for x in c["aL"]]
                    aL[d] = [0.0, 1.0]
                    yield dict(script, configs=cfgs[:i] + [dict(c, aL=aL)] + cfgs[i + 1:])
            for d in range(3):
                if c["aL"][d][0] != 0.0:
                    aL = [list(x) for x in c["aL"]]
                    aL[d] = [0.0, aL[d][1]]
                    yield dict(script, configs=cfgs[:i] + [dict(c, aL=aL)] + cfgs[i + 1:])
        if c["faults"]:
            yield dict(script, configs=cfgs[:i] + [dict(c, faults=[])] + cfgs[i + 1:])
    used = {op.get("obj") for op in script["ops"] if "obj" in op}
    n = len(script["objects"])
    usedm = {u % n for u in used if u is not None}
    if usedm and max(usedm) + 1 < n:
        yield dict(script, objects=script["objects"][:max(usedm) + 1])
    for i, sp in enumerate(script["objects"]):
        if sp["rational"]:
            sp2 = dict(sp, rational=False)
            sp2.pop("W", None)
            yield dict(script, objects=script["objects"][:i] + [sp2] + script["objects"][i + 1:])


def sample_view(script, res):
    return {"run": script["run"], "knobs": script["knobs"],
            "objects": [{"kind": s["kind"], "rational": s["rational"], "degrees": s["degrees"], "sizes": s["sizes"]} for s in script["objects"]],
            "workload": script["ops"][:14], "configs": script["configs"], "pool_schedules": res.get("extra", {}).get("sigs", [])[:4]}


# ---------------------------------------------------------------------------------------------
# workload execution under one configuration (runs in a pristine grandchild)

def _kv_back(kv, a, L):
    return [(k - a) / L for k in kv]


def _norm01(kv):
    lo, hi = kv[0], kv[-1]
    return [(k - lo) / (hi - lo) for k in kv]


def _build(spec, cfg, shared=None, idx=None):
    g = shapes.G
    kwargs = {}
    if cfg["span"] == "binsearch":
        kwargs["find_span_func"] = g.helpers.find_span_binsearch
    nd = shapes.DIRS[spec["kind"]]
    if not cfg["normalize"]:
        kwargs["normalize_kv"] = False
        knots = [shapes.affine_knots(spec["knots"][d], cfg["aL"][d][0], cfg["aL"][d][1]) for d in range(nd)]
    else:
        knots = spec["knots"]
    obj = shapes.new_object(spec["kind"], spec["rational"], **kwargs)
    if shared is not None:
        src = spec.get("share_kv_with")
        if src is not None and src in shared:
            knots = shared[src]            # the very same list objects
        else:
            knots = [list(kv) for kv in knots]
            shared[idx] = knots
        shapes.define_shared(obj, spec["degrees"], spec["sizes"], shapes.spec_ctrlptsw(spec), knots)
        return _finish_build(obj, spec, cfg, g)
    shapes.define(obj, spec["degrees"], spec["sizes"], shapes.spec_ctrlptsw(spec), knots)
    return _finish_build(obj, spec, cfg, g)


def _finish_build(obj, spec, cfg, g):
    if cfg["evaluator"] == "alt" and not spec["rational"] and spec["kind"] in ("curve", "surface"):
        cls = g.evaluators.CurveEvaluator2 if spec["kind"] == "curve" else g.evaluators.SurfaceEvaluator2
        fs = g.helpers.find_span_binsearch if cfg["span"] == "binsearch" else g.helpers.find_span_linear
        obj.evaluator = cls(find_span_func=fs)
    return obj


def _aL(cfg, nd):
    if cfg["normalize"]:
        return [(0.0, 1.0)] * nd
    return [tuple(cfg["aL"][d]) for d in range(nd)]


def _defn_obs(obj, aL):
    d = shapes.definition(obj)
    return [d["degrees"], d["sizes"], [_kv_back(kv, a, L) for kv, (a, L) in zip(d["knots"], aL)], d["ctrlptsw"]]


def _piece_obs(obj):
    d = shapes.definition(obj)
    return [d["degrees"], d["sizes"], [_norm01(kv) for kv in d["knots"]], d["ctrlptsw"]]


def execute_workload(script, cfg):
    """Returns (observations, info). observations[i] = ['ok', value] | ['exc', name] | ['skip']."""
    g = shapes.G.load()
    if not cfg.get("real_pool"):
        simpool.install()
    simpool.configure(h64(script.get("seed", 0), script.get("run", 0), "pool", cfg["sched"]), cfg["chunk"], cfg["faults"], None)
    objs = []
    shared = {}
    evals = {}
    for oi, spec in enumerate(script["objects"]):
        o = _build(spec, cfg, shared, oi)
        nd = shapes.DIRS[spec["kind"]]
        if script.get("knobs", {}).get("share_evaluator"):
            ev = evals.setdefault(type(o.evaluator), o.evaluator)
            if ev is not o.evaluator:
                o.evaluator = ev
        o.sample_size = 4
        objs.append(o)
    cont = g.multi.SurfaceContainer()
    cont.sample_size = 4
    members = []
    out = []
    info = {"queries_on_variant_objects": 0, "pooled_calls": 0}
    np_ = cfg["num_procs"]
    import signal

    def _on_alarm(signum, frame):
        raise OpTimeout("operation did not return within %ss" % OP_TIMEOUT_S)
    signal.signal(signal.SIGALRM, _on_alarm)
    for op in script["ops"]:
        k = op["op"]
        signal.setitimer(signal.ITIMER_REAL, OP_TIMEOUT_S)
        if not objs:
            out.append(["skip"])
            continue
        i = op.get("obj", 0) % len(objs)
        obj = objs[i]
        spec = script["objects"][i]
        nd = shapes.DIRS[spec["kind"]]
        aL = _aL(cfg, nd)

        def P(t):
            return [a + L * x for x, (a, L) in zip(t[:nd], aL)]
        if k in ("find_ctrlpts", "deriv", "tangent", "normal", "hodograph") and any(abs(a_ - 1.0 / 3000.0) < 1e-15 for a_, _ in aL):
            # these answers are DISCONTINUOUS at knots (which control points, one-sided derivatives at C0 knots). With a range
            # whose end points are not exactly representable a parameter computed as a + L*t and a knot produced by a midpoint
            # or a refinement differ in the last bit: "on the knot" under one configuration, "just below it" under the other -
            # not the same query any more. Continuous queries (points, samples, meshes, structure) are still compared.
            out.append(["not_compared"])
            continue
        try:
            val = None
            if k == "eval":
                p = P(op["t"])
                val = list(obj.evaluate_single(p[0] if nd == 1 else p))
            elif k == "eval_list":
                ps = [P(t) for t in op["ts"]]
                val = [list(x) for x in obj.evaluate_list([p[0] for p in ps] if nd == 1 else ps)]
            elif k == "sample":
                obj.sample_size = op["n"]
                val = [list(x) for x in obj.evalpts]
            elif k == "evalrange":
                obj.sample_size = op["n"]
                kw = {}
                for d in range(nd):
                    sfx = "" if nd == 1 else "_" + shapes.SUFFIX[d]
                    a_, L_ = aL[d]
                    if op["lo"][d] is not None:
                        kw["start" + sfx] = a_ + L_ * op["lo"][d]
                    if op["hi"][d] is not None:
                        kw["stop" + sfx] = a_ + L_ * op["hi"][d]
                obj.evaluate(**kw)
                val = [list(x) for x in obj.evalpts]
            elif k == "delta":
                obj.delta = op["d"]
                val = [list(x) for x in obj.evalpts]
            elif k == "deriv":
                if nd == 3:
                    out.append(["skip"])
                    continue
                p = P(op["t"])
                order = op["order"]
                if nd == 1:
                    ders = obj.derivatives(p[0], order)
                    L0 = aL[0][1]
                    val = [[c * (L0 ** kk) for c in ders[kk]] for kk in range(order + 1)]
                else:
                    skl = obj.derivatives(p[0], p[1], order)
                    val = []
                    for kk in range(order + 1):
                        for ll in range(order + 1 - kk):
                            val.append([c * (aL[0][1] ** kk) * (aL[1][1] ** ll) for c in skl[kk][ll]])
            elif k in ("insert", "remove"):
                d = op["dir"] % nd
                u = aL[d][0] + aL[d][1] * op["t"]
                kv = shapes.definition(obj)["knots"][d]
                s = sum(1 for x in kv if abs(x - u) < 1e-12)
                p_ = shapes.definition(obj)["degrees"][d]
                if k == "insert":
                    num = min(op["num"], p_ - s)
                else:
                    num = min(op["num"], s)
                if num < 1:
                    out.append(["skip"])
                    continue
                params = [None] * nd
                nums = [0] * nd
                params[d], nums[d] = u, num
                (g.operations.insert_knot if k == "insert" else g.operations.remove_knot)(obj, params, nums)
                val = _defn_obs(obj, aL)
            elif k == "remove_orig":
                # removal of a knot that is simply there (whether or not it is removable without changing the shape): the outcome is a
                # deterministic function of the definition, hence must not depend on the configuration either
                d = op["dir"] % nd
                dfn = shapes.definition(obj)
                kv, p_ = dfn["knots"][d], dfn["degrees"][d]
                interior = sorted(set(kv[p_ + 1:len(kv) - p_ - 1]))
                if not interior or dfn["sizes"][d] - 1 < p_ + 1:
                    out.append(["skip"])
                    continue
                u = interior[op["which"] % len(interior)]
                params = [None] * nd
                nums = [0] * nd
                params[d], nums[d] = u, 1
                g.operations.remove_knot(obj, params, nums)
                val = _defn_obs(obj, aL)
            elif k == "refine":
                dens = [0] * nd
                dens[op["dir"] % nd] = 1
                if max(shapes.definition(obj)["sizes"]) > 9:
                    out.append(["skip"])
                    continue
                g.operations.refine_knotvector(obj, dens)
                val = _defn_obs(obj, aL)
            elif k == "split":
                if nd == 3:
                    out.append(["skip"])
                    continue
                d = op["dir"] % nd
                u = aL[d][0] + aL[d][1] * op["t"]
                if not cfg["normalize"] and op.get("noise") and u != 0.0:
                    u = u * (1.0 + op["noise"] * 2.0 ** -52)
                if nd == 1:
                    pieces = g.operations.split_curve(obj, u)
                elif d == 0:
                    pieces = g.operations.split_surface_u(obj, u)
                else:
                    pieces = g.operations.split_surface_v(obj, u)
                val = [_piece_obs(pc) for pc in pieces]
            elif k == "decompose":
                if nd == 3 or max(shapes.definition(obj)["sizes"]) > 8:
                    out.append(["skip"])
                    continue
                pieces = g.operations.decompose_curve(obj) if nd == 1 else g.operations.decompose_surface(obj)
                val = [_piece_obs(pc) for pc in pieces]
            elif k == "tangent":
                if nd == 3:
                    out.append(["skip"])
                    continue
                p = P(op["t"])
                r = g.operations.tangent(obj, p[0] if nd == 1 else p, normalize=True)
                val = [list(x) if isinstance(x, (list, tuple)) else x for x in r]
            elif k == "length":
                if nd != 1:
                    out.append(["skip"])
                    continue
                val = [g.operations.length_curve(obj)]
            elif k == "hodograph":
                if nd == 3 or spec["rational"]:
                    out.append(["skip"])
                    continue
                if nd == 1:
                    hods = [g.operations.derivative_curve(obj)]
                    scales = [aL[0][1]]
                else:
                    hods = list(g.operations.derivative_surface(obj))
                    scales = [aL[0][1], aL[1][1], aL[0][1] * aL[1][1]]
                val = []
                for hod, sc in zip(hods, scales):
                    dm = hod.domain
                    dms = [dm] if nd == 1 else dm
                    prm = [lo + (hi - lo) * x for (lo, hi), x in zip(dms, op["t"][:nd])]
                    val.append([c * sc for c in hod.evaluate_single(prm[0] if nd == 1 else prm)])
            elif k == "find_ctrlpts":
                if nd == 3:
                    out.append(["skip"])
                    continue
                p = P(op["t"])
                r = g.operations.find_ctrlpts(obj, p[0]) if nd == 1 else g.operations.find_ctrlpts(obj, p[0], p[1])
                val = [list(x) if not isinstance(x[0], (list, tuple)) else [list(y) for y in x] for x in r]
            elif k == "normal":
                if nd != 2:
                    out.append(["skip"])
                    continue
                r = g.operations.normal(obj, P(op["t"]), normalize=True)
                val = [list(x) for x in r]
            elif k == "tessellate":
                if nd != 2:
                    out.append(["skip"])
                    continue
                obj.sample_size = op["n"]
                obj.tessellate()
                val = [[[v.id, list(v.data)] for v in obj.vertices], [list(f.vertex_ids) for f in obj.faces]]
            elif k == "voxelize":
                if op["target"] == "container":
                    if not members:
                        out.append(["skip"])
                        continue
                    cont.sample_size = op["n"]
                    _ = cont.evalpts
                    tgt = cont
                else:
                    if nd == 1:
                        out.append(["skip"])
                        continue
                    obj.sample_size = op["n"]
                    tgt = obj
                if any(abs(a_ - 1.0 / 3000.0) < 1e-15 for a_, _ in aL):
                    # in/out of a voxel is a discontinuous function of the sampled points: with a knot range whose end points are
                    # not exactly representable the points differ from the normalised ones in the last bits and a point ON a voxel
                    # face may change sides - not a dependence on the configuration the property is about
                    out.append(["not_compared"])
                    continue
                vkw = {}
                if op.get("pad"):
                    vkw[op["pad"][0]] = op["pad"][1]
                if op.get("use_cubes"):
                    vkw["use_cubes"] = True
                if np_ > 1:
                    info["pooled_calls"] += 1
                    grid, filled = g.voxelize.voxelize(tgt, grid_size=tuple(op["grid"]), num_procs=np_, **vkw)
                else:
                    grid, filled = g.voxelize.voxelize(tgt, grid_size=tuple(op["grid"]), **vkw)
                fill = [int(bool(x)) for x in filled]
                # in / out is a discontinuous function of the sampled points: a voxel with a sampled point within a hair of one of its
                # (padded) faces may legitimately change sides when the points differ in their last bits between configurations
                padv = op["pad"][1] if (op.get("pad") and op["pad"][0] == "tol") else 10e-8
                pts_ = [list(q) for q in tgt.evalpts]
                span_ = max([abs(c) for q in pts_ for c in q] + [1.0])
                eps_ = 1e-9 * span_
                for vi, b in enumerate(grid):
                    lo_ = [c - padv for c in b[0]]
                    hi_ = [c + padv for c in b[1]]
                    for q in pts_:
                        if all(l - eps_ <= c <= h + eps_ for c, l, h in zip(q, lo_, hi_)) and \
                                not all(l + eps_ <= c <= h - eps_ for c, l, h in zip(q, lo_, hi_)):
                            fill[vi] = 2          # fragile: not compared
                            break
                val = [[[list(b[0]), list(b[1])] for b in grid], fill]
            elif k == "cadd":
                if nd != 2 or i in members or len(members) >= 4:
                    out.append(["skip"])
                    continue
                cont.add(obj)
                members.append(i)
                val = [len(cont)]
            elif k == "ctess":
                if not members:
                    out.append(["skip"])
                    continue
                cont.sample_size = op["n"]
                kw = {"delta": op["delta"], "force": op["force"]}
                if np_ > 1:
                    kw["num_procs"] = np_
                    info["pooled_calls"] += 1
                cont.tessellate(**kw)
                val = [[[v.id, list(v.data)] for v in cont.vertices], [list(f.vertex_ids) for f in cont.faces],
                       [len(e.evalpts) for e in cont]]
            elif k == "cread":
                if not members:
                    out.append(["skip"])
                    continue
                val = [[list(p) for p in cont.evalpts], [list(p) for p in cont.bbox]]
            elif k == "edit_handle":
                if nd != 2:
                    out.append(["skip"])
                    continue
                g.operations.translate(obj, op["vec"][:spec["dim"]], inplace=True)
                val = [list(p) for p in obj.bbox]
            else:
                out.append(["skip"])
                continue
            out.append(["ok", val])
            if (not cfg["normalize"] or cfg["span"] != "linear" or (cfg["evaluator"] == "alt" and not spec["rational"] and nd < 3)) \
                    and k not in ("cadd", "ctess", "cread"):
                info["queries_on_variant_objects"] += 1
        except Exception as e:  # noqa
            out.append(["exc", type(e).__name__, str(e)[:200]])
            if isinstance(e, OpTimeout):
                signal.setitimer(signal.ITIMER_REAL, 0)
                while len(out) < len(script["ops"]):
                    out.append(["skip"])
                break
    signal.setitimer(signal.ITIMER_REAL, 0)
    info["pool"] = {k: v for k, v in simpool.STATS.items()}
    return out, info


# ---------------------------------------------------------------------------------------------
# pristine grandchildren

def _in_child(fn, reimport_unset=False):
    r, w = os.pipe()
    pid = os.fork()
    if pid == 0:
        try:
            os.close(r)
            if reimport_unset:
                os.environ.pop("GEOMDL_CACHE_SIZE", None)
                for name in [m for m in sys.modules if m == "geomdl" or m.startswith("geomdl.")]:
                    del sys.modules[name]
                shapes.G.loaded = False
                shapes.G.load()
            try:
                res = ("ok", fn())
            except BaseException:
                res = ("err", traceback.format_exc()[-3000:])
            data = pickle.dumps(res)
            off = 0
            while off < len(data):
                off += os.write(w, data[off:off + 65536])
        finally:
            os._exit(0)
    os.close(w)
    import select
    import signal
    import time
    buf = b""
    deadline = time.monotonic() + float(os.environ.get("VERIF_GRANDCHILD_TIMEOUT_S", "150"))
    while True:
        rl, _, _ = select.select([r], [], [], max(0.0, deadline - time.monotonic()))
        if not rl:
            try:
                os.kill(pid, signal.SIGKILL)
            except OSError:
                pass
            buf = b""
            break
        ch = os.read(r, 65536)
        if not ch:
            break
        buf += ch
    os.close(r)
    os.waitpid(pid, 0)
    if not buf:
        raise RuntimeError("configuration child died without a result")
    kind, val = pickle.loads(buf)
    if kind == "err":
        raise RuntimeError("configuration child failed:\n" + val)
    return val


def _dims(cfg):
    d = []
    if cfg["num_procs"] != 1:
        d.append("num_procs")
    if cfg["span"] != "linear":
        d.append("span")
    if cfg["evaluator"] != "default":
        d.append("evaluator")
    if not cfg["normalize"]:
        d.append("normalize")
    return d


def _single_dim_variants(cfg):
    for dim in _dims(cfg):
        c = dict(BASELINE, aL=[list(x) for x in BASELINE["aL"]], faults=[])
        if dim == "num_procs":
            c.update(num_procs=cfg["num_procs"], sched=cfg["sched"], chunk=cfg["chunk"], faults=cfg["faults"])
        elif dim == "normalize":
            c.update(normalize=False, aL=cfg["aL"])
        else:
            c[dim] = cfg[dim]
        yield dim, c


def _first_mismatch(script, base, obs, cfg):
    """Index and description of the first disagreement between baseline and configuration observations."""
    faulted = any(f["kind"] == "worker_raises" for f in cfg["faults"])
    tainted = False
    for idx, (b, o) in enumerate(zip(base, obs)):
        op = script["ops"][idx]
        if tainted and op["op"] == "ctess" and not (op["force"] and op["delta"]):
            # the baseline performed a tessellation that the faulted run legitimately did not: a later call that re-uses
            # cached results / element deltas has different inputs. Forced calls with delta=True recompute everything.
            continue
        if b[0] == "not_compared" or o[0] == "not_compared":
            continue
        if b[0] == "skip" or o[0] == "skip":
            if b[0] != o[0]:
                return idx, "skipped_differently", "operation %r applicable under one configuration only (%s vs %s)" % (op, b[0], o[0])
            continue
        if b[0] == "ok" and o[0] == "exc":
            if faulted and op["op"] in ("ctess", "voxelize"):
                tainted = True
                continue   # the faulted pooled call may raise; nothing is asserted about it
            return idx, "valid_call_fails", "%r returned under the baseline but raised %s: %s" % (op, o[1], o[2])
        if b[0] == "exc":
            continue       # not a previously valid call; nothing to compare
        if op["op"] == "voxelize" and isinstance(o[1], list) and isinstance(b[1], list) and len(o[1]) == 2 and len(b[1]) == 2 \
                and len(o[1][1]) == len(b[1][1]):
            # voxels that either side marked as fragile (a sampled point on a face) are not compared
            fo, fb = list(o[1][1]), list(b[1][1])
            for vi in range(len(fo)):
                if fo[vi] == 2 or fb[vi] == 2:
                    fo[vi] = fb[vi] = 0
            o = [o[0], [o[1][0], fo]]
            b = [b[0], [b[1][0], fb]]
        ok, why = close(o[1], b[1], TOL)
        if not ok:
            return idx, "different_answer", "%r answered differently: %s\n  baseline: %s\n  config  : %s" % (
                op, why, _short(b[1]), _short(o[1]))
    return None


def _short(x):
    s = repr(x)
    return s if len(s) < 400 else s[:400] + "..."


def run(script, ctx):
    zy_cache = script["knobs"].get("cache_size")
    base_cfg = dict(BASELINE)
    base, binfo = _in_child(lambda: execute_workload(script, base_cfg), reimport_unset=zy_cache is not None)
    ctx.log("baseline", [b[0] for b in base])
    for b, op in zip(base, script["ops"]):
        ctx.extra["baseline_%s:%s" % (b[0], op["op"])] = ctx.extra.get("baseline_%s:%s" % (b[0], op["op"]), 0) + 1
    ctx.ops_executed += len(base)
    if zy_cache is not None:
        ctx.probe("baseline_reimported_with_cache_unset")
    sigs = []
    for ci, cfg in enumerate(script["configs"]):
        ctx.step = ci
        obs, info = _in_child(lambda: execute_workload(script, cfg))
        ps = info["pool"]
        ctx.log("config", ci, _dims(cfg), [o[0] for o in obs], ps["signatures"])
        ctx.ops_executed += len(obs)
        ctx.sim_time += ps["sim_time"]
        for kf, n in ps["faults_fired"].items():
            ctx.fault(kf, n)
        for s in ps["signatures"]:
            sigs.append(s)
            ctx.state("sched:" + s)
            if s.count(",") >= 1 and not s.startswith("n1|"):
                ctx.probe("pooled_call_with_ge_2_chunks")
        if ps["out_of_order_completions"]:
            ctx.probe("chunks_completed_out_of_order", ps["out_of_order_completions"])
        if any(("," in s.split("|")[1]) and not s.startswith("n1|") for s in ps["signatures"]) or info["queries_on_variant_objects"] >= 3:
            ctx.nontrivial = True
        for d in _dims(cfg):
            ctx.probe("config_dim:" + d)
        ctx.state("cfg:%s|cache=%s|%s" % ("+".join(_dims(cfg)) or "baseline-like", zy_cache,
                                          ",".join(sorted({sp["kind"] + ("R" if sp["rational"] else "") for sp in script["objects"]}))))
        if zy_cache is not None:
            ctx.probe("config_dim:cache_size")
        mm = _first_mismatch(script, base, obs, cfg)
        if mm is None:
            continue
        idx, cls, msg = mm
        # attribution: which single configuration dimension reproduces this mismatch at this operation?
        cause = None
        for dim, c1 in _single_dim_variants(cfg):
            o1, _ = _in_child(lambda: execute_workload(script, c1))
            m1 = _first_mismatch(script, base, o1, c1)
            if m1 is not None and m1[0] == idx and m1[1] == cls:
                cause = dim
                break
        if cause is None:
            if zy_cache is not None:
                o1, _ = _in_child(lambda: execute_workload(script, base_cfg))
                m1 = _first_mismatch(script, base, o1, base_cfg)
                if m1 is not None and m1[0] == idx:
                    cause = "cache_size"
            if cause is None:
                cause = "+".join(_dims(cfg)) or "none"
        spec = script["objects"][script["ops"][idx].get("obj", 0) % len(script["objects"])]
        ctx.extra["sigs"] = sigs[:6]
        ctx.fail(cls, "configuration #%d %r (cache_size=%r), operation %d: %s" % (ci, {k: cfg[k] for k in ("span", "evaluator", "normalize", "aL", "num_procs", "chunk", "faults")}, zy_cache, idx, msg),
                 op=script["ops"][idx]["op"], cause=cause, kind=spec["kind"])
    ctx.extra["sigs"] = sigs[:6]
    ctx.extra["schedules"] = len(sigs)
