"""C16 - linear-algebra routines satisfy their defining equations on every call, whatever was called before.

World: one geomdl process whose only cross-call state is the process-global memos
(linalg.matrix_identity, linalg.binomial_coefficient).  A run is a seeded *history* of calls; sizes are
deliberately repeated so that later calls meet what earlier calls left behind.  Faults: memo eviction
(cache_clear at seeded points), cache-size knob, rejected inputs.  Oracles: exact rational linear algebra
(R3) per call + differential "same call in a pristine process" (bit-identical).
"""
import json
import math
import os
import sys
from fractions import Fraction as F

from sim import refmodel as R
from sim.core import Violation, Precondition

PROPS = ["C16"]
BUDGET = {"C16": {"quick": {"runs": 12000, "wall_cap_s": 150}, "thorough": {"runs": 200000, "wall_cap_s": 1800}}}
RULE = {"C16": "one case = one seeded history of 2-40 linalg calls (matrix classes: doubly diagonally dominant, "
               "row-permuted dominant (needs row swaps), spline collocation, small general integer/dyadic with "
               "non-vanishing pivots, static-pivot breakdown) with seeded memo evictions and rejected inputs, executed in "
               "a fresh process under a seeded GEOMDL_CACHE_SIZE; non-trivial = a call that needs a row swap on size n "
               "is followed later in the same process by another call of size n that consumes the identity/permutation "
               "(pivot, inverse, factor, determinant or identity); distinct = distinct operation-list digest"}
ASSUMPTIONS = {"C16": [
    "matrix entries are integers |a|<=9 (diagonals of dominant matrices up to ~80), dyadic multiples of them, or B-spline "
    "collocation values; sizes 1..8 (general class 1..4 so that unpivoted growth stays far below the 1e-7 tolerance)",
    "general matrices are generated with non-vanishing exact pivots under the documented static pivoting rule; the class "
    "where static pivoting breaks down is generated separately and judged separately",
    "the reference results are computed in exact rational arithmetic from the very floats passed to the library",
    "history independence is judged by bit-identical equality with the same call made in a process forked before any "
    "call was made"]}
COMPONENTS = {"real": ["geomdl.linalg, geomdl._linalg (working tree)", "functools.lru_cache memos", "process fork per run"],
              "stub": ["none - this machine has no pool, disk or clock; the simulator only decides the call history, "
                       "memo evictions and cache size"]}

_linalg = None


def prepare():
    global _linalg
    from geomdl import linalg
    _linalg = linalg


# ---------------------------------------------------------------------------------------------
# generation (no geomdl import)

def _ints(rng, n, m, lo=-9, hi=9):
    return [[rng.randint(lo, hi) for _ in range(m)] for _ in range(n)]


def _dominant(rng, n):
    a = _ints(rng, n, n)
    for i in range(n):
        rs = sum(abs(a[i][j]) for j in range(n) if j != i)
        cs = sum(abs(a[j][i]) for j in range(n) if j != i)
        a[i][i] = (max(rs, cs) + rng.randint(1, 3)) * rng.choice([1, -1])
    return a


def _collocation(rng, n):
    p = rng.randint(1, min(3, n - 1)) if n > 1 else 0
    if n == 1:
        return [[1.0]], 0
    # strictly increasing dyadic parameters with t0 = 0, t_{n-1} = 1
    cuts = sorted(rng.sample(range(1, 64), n - 2)) if n > 2 else []
    t = [0.0] + [c / 64.0 for c in cuts] + [1.0]
    kv = [0.0] * (p + 1)
    for j in range(1, n - p):
        kv.append(sum(t[j:j + p]) / p)
    kv += [1.0] * (p + 1)
    a = [[float(v) for v in R.basis_all(p, kv, tk, n, float)] for tk in t]
    return a, p


def _general(rng, n, need_plain):
    for _ in range(200):
        a = _ints(rng, n, n)
        fa = R.frm(a)
        if R.det(fa) == 0:
            continue
        _, pa = R.static_pivot(fa)
        mp = R.min_abs_pivot(pa)
        if mp < F(1, 64):
            continue
        if need_plain:
            mq = R.min_abs_pivot(fa)
            if mq < F(1, 64):
                continue
        return a
    return _dominant(rng, n)


def _breakdown(rng, n):
    """Non-singular, but elimination of the statically pivoted matrix meets an exactly zero pivot."""
    for _ in range(400):
        a = _ints(rng, n, n, -3, 3)
        fa = R.frm(a)
        if R.det(fa) == 0:
            continue
        _, pa = R.static_pivot(fa)
        if R.min_abs_pivot(pa) == 0:
            return a
    return None


def _plain_breakdown(rng, n):
    """Non-singular, the first pivot is fine, but a later leading principal minor vanishes: elimination WITHOUT row exchanges
    meets an exactly zero pivot - which floating point arithmetic turns into rounding noise when the multipliers are inexact
    (rows like [13, 13, ...] and [15, 15, ...])."""
    for _ in range(400):
        a = _ints(rng, n, n, -15, 15)
        if a[0][0] == 0:
            continue
        fa = R.frm(a)
        if R.det(fa) == 0:
            continue
        if R.min_abs_pivot(fa) == 0:
            return a
        # force a vanishing 2 x 2 leading minor: second row = multiple of the first in its first two entries
        if n >= 3 and a[0][1] != 0:
            m_ = rng.pick([2, 3, 5, 7, 11, 13])
            b = [list(r) for r in a]
            b[1][0], b[1][1] = b[0][0] + m_, (b[0][1] * (b[0][0] + m_))
            if b[1][1] % b[0][0] == 0:
                b[1][1] //= b[0][0]
                fb = R.frm(b)
                if R.det(fb) != 0 and R.min_abs_pivot(fb) == 0:
                    return b
    return None


def _scale(rng, a):
    if rng.chance(0.15):
        # the same matrix in other units: an exact power-of-two factor (every quotient and product the solver forms is scaled
        # exactly, so the answer is the exactly scaled answer); 2**-30 ~ 1e-9, 2**-40 ~ 1e-12
        s = rng.choice([2.0 ** -24, 2.0 ** -30, 2.0 ** -30, 2.0 ** -40, 2.0 ** 20])
        return [[v * s for v in row] for row in a]
    if rng.chance(0.3):
        s = rng.choice([0.5, 0.25, 0.125, 2.0])
        return [[v * s for v in row] for row in a]
    if rng.chance(0.2):
        return [[float(v) for v in row] for row in a]
    return a


def _matrix(rng, routine, sizes):
    """Returns (A, mclass, n)."""
    n = rng.pick(sizes)
    pivoted = routine in ("lu_factor", "matrix_inverse", "matrix_determinant", "matrix_pivot")
    if routine == "lu_solve" and rng.chance(0.3):
        # "whenever the LU solvers return a result for a non-singular matrix it satisfies A x = b": also for matrices whose
        # leading principal minors vanish (the solver may refuse them - it must not return something else)
        pivoted = True
    classes = [("dominant", 4), ("colloc", 3), ("general", 3)]
    if pivoted and routine == "lu_solve":
        classes = [("dominant_perm", 2), ("general_swap", 3), ("breakdown", 4)]
    elif pivoted:
        classes += [("dominant_perm", 5), ("general_swap", 2), ("breakdown", 0.4)]
    mclass = rng.weighted(classes)
    if mclass == "colloc":
        a, _ = _collocation(rng, n)
        return a, mclass, n
    if mclass == "dominant":
        return _scale(rng, _dominant(rng, n)), mclass, n
    if mclass == "dominant_perm":
        a = _dominant(rng, n)
        if n >= 2:
            perm = list(range(n))
            while perm == list(range(n)):
                rng.shuffle(perm)
            a = [a[i] for i in perm]
        else:
            mclass = "dominant"
        return _scale(rng, a), mclass, n
    if mclass == "breakdown" and routine == "lu_solve":
        n = min(max(n, 3), 5)
        a = _plain_breakdown(rng, n)
        if a is not None:
            return a, mclass, n
        mclass = "general"
    if mclass == "breakdown":
        n = min(max(n, 3), 4)
        a = _breakdown(rng, n)
        if a is not None:
            return a, mclass, n
        mclass = "general"
    n = min(n, 4)
    a = _general(rng, n, need_plain=(not pivoted) or mclass == "general")
    if mclass == "general_swap":
        order, _ = R.static_pivot(R.frm(a))
        if order == list(range(n)):
            mclass = "general"
    return _scale(rng, a), mclass, n


def _perturb(rng, prev_op, routine):
    """A matrix that differs from an earlier input of the history in one or two entries only (same size), still inside the
    classes the oracle can judge. Includes the exchanges -1 <-> -2 (equal hashes in CPython) and int <-> float."""
    a = [list(row) for row in prev_op["A"]]
    n = len(a)
    pivoted = routine in ("lu_factor", "matrix_inverse", "matrix_determinant", "matrix_pivot")
    for _ in range(12):
        b = [list(row) for row in a]
        how = rng.pick(["m1m2", "m1m2", "bump", "negate_offdiag", "float_same", "swap_rows"])
        if how == "m1m2":
            cells = [(i, j) for i in range(n) for j in range(n) if b[i][j] in (-1, -2, -1.0, -2.0)]
            if not cells:
                i, j = rng.randrange(n), rng.randrange(n)
                if i == j and n > 1:
                    j = (j + 1) % n
                b[i][j] = rng.pick([-1, -2])
                base = [list(row) for row in b]
                b[i][j] = -1 if base[i][j] == -2 else -2
                a = base            # make the earlier matrix carry the twin as well (returned via 'cand' only: fine)
            else:
                i, j = rng.pick(cells)
                b[i][j] = type(b[i][j])(-3 - b[i][j])
        elif how == "bump":
            i, j = rng.randrange(n), rng.randrange(n)
            b[i][j] = b[i][j] + rng.pick([1, -1])
        elif how == "negate_offdiag" and n > 1:
            i = rng.randrange(n)
            j = (i + 1 + rng.randrange(n - 1)) % n
            b[i][j] = -b[i][j]
        elif how == "float_same":
            b = [[float(v) for v in row] for row in b]
        elif how == "swap_rows" and n > 1 and pivoted:
            i = rng.randrange(n)
            j = (i + 1 + rng.randrange(n - 1)) % n
            b[i], b[j] = b[j], b[i]
        fb = R.frm(b)
        if R.det(fb) == 0:
            continue
        _, pb = R.static_pivot(fb)
        if n <= 4 or all(abs(fb[i][i]) > sum(abs(fb[i][j]) for j in range(n) if j != i) for i in range(n)):
            if R.min_abs_pivot(pb if pivoted else fb) >= F(1, 64):
                dom = all(abs(fb[i][i]) > sum(abs(fb[i][j]) for j in range(n) if j != i) for i in range(n))
                return b, ("dominant" if dom else "general"), n
    return None


def _rhs(rng, n):
    m = rng.randint(1, 3)
    b = _ints(rng, n, m)
    if rng.chance(0.3):
        b = [[v / 4.0 for v in row] for row in b]
    return b


MATRIX_ROUTINES = ["lu_solve", "lu_factor", "matrix_inverse", "matrix_determinant", "matrix_pivot", "lu_decomposition"]


def gen(prop, stream, tier, avoid):
    rng = stream("ops")
    kn = stream("knobs")
    knobs = {"cache_size": kn.pick([None, None, "1", "16", "1024"]),
             "clear_p": kn.pick([0.0, 0.0, 0.1, 0.3])}
    nops = kn.pick([2, 3, 4, 6, 8, 12, 20, 40] + ([80] if tier == "thorough" else []))
    # few sizes per run so that sizes repeat
    sizes = sorted(set(kn.randint(1, 8 if tier == "thorough" or kn.chance(0.3) else 5) for _ in range(kn.randint(1, 3))))
    weights = [(r, kn.uniform(0.2, 1.0)) for r in MATRIX_ROUTINES]
    weights += [("matrix_identity", kn.uniform(0.1, 0.6)), ("helper", kn.uniform(0.0, 0.6)),
                ("reject", kn.uniform(0.0, 0.2)), ("pivot_then", kn.uniform(0.0, 0.4))]
    ops = []
    perturb_p = kn.pick([0.0, 0.2, 0.5])
    held_p = kn.pick([0.0, 0.25, 0.5])
    for _ in range(nops):
        if rng.chance(knobs["clear_p"]):
            ops.append({"op": "cache_clear", "which": rng.pick(["identity", "binomial", "both"])})
        r = rng.weighted(weights)
        if r in MATRIX_ROUTINES:
            a, mclass, n = _matrix(rng, r, sizes)
            prev = [o for o in ops if o["op"] in MATRIX_ROUTINES]
            if prev and rng.chance(perturb_p):
                # near-identical inputs in a row: anything keyed on (part of) the input shows its key completeness only then
                cand = _perturb(rng, rng.pick(prev[-3:]), r)
                if cand is not None:
                    a, mclass, n = cand
            if "breakdown" in avoid and mclass == "breakdown":
                a, mclass = _dominant(rng, n), "dominant"
            op = {"op": r, "A": a, "mclass": mclass, "n": n, "uid": len(ops)}
            if rng.chance(0.15):
                op["seq"] = "tuple"          # documented input type: list, tuple
            if prev and rng.chance(held_p):
                # the caller keeps its matrix in a variable and hands the same object to another routine (or the same one again)
                plain_ok = ("dominant", "colloc", "general")
                # (a matrix prepared for a pivoting routine may need row exchanges whatever its label says: the plain routines only
                # take over matrices that were prepared for a plain routine, or dominant / collocation ones)
                cands = [o for o in prev[-4:] if o.get("uid") is not None and o["mclass"] != "breakdown" and
                         (r in ("lu_factor", "matrix_inverse", "matrix_determinant", "matrix_pivot") or o["mclass"] in ("dominant", "colloc") or
                          (o["mclass"] in plain_ok and o["op"] in ("lu_solve", "lu_decomposition") and o.get("held_from") is None))]
                if cands:
                    po = rng.pick(cands)
                    op.update(A=json.loads(json.dumps(po["A"])), mclass=po["mclass"], n=po["n"], held_from=po["uid"])
                    n = po["n"]
            if r in ("lu_solve", "lu_factor"):
                op["b"] = _rhs(rng, n)
                if op.get("held_from") is not None and rng.chance(0.5):
                    pb = next((o for o in prev if o.get("uid") == op["held_from"] and "b" in o), None)
                    if pb is not None:
                        op["b"], op["held_b"] = json.loads(json.dumps(pb["b"])), True
            if r == "matrix_pivot":
                op["sign"] = rng.chance(0.5)
            ops.append(op)
        elif r == "pivot_then":
            # the caller takes the matrix RETURNED by matrix_pivot, reorders its rows in place and hands that very object to
            # another routine: the answer is the answer for the values it holds now
            a, mclass, n = _matrix(rng, "matrix_pivot", sizes)
            if n >= 2 and mclass != "breakdown":
                ops.append({"op": "pivot_then", "A": a, "mclass": "pivot_result_edited", "n": n, "edit": rng.pick(["reverse", "swap"]),
                            "then": rng.pick(["matrix_determinant", "matrix_determinant", "lu_factor", "matrix_inverse"]), "b": _rhs(rng, n)})
        elif r == "matrix_identity":
            ops.append({"op": "matrix_identity", "n": rng.pick(sizes)})
        elif r == "reject":
            n = rng.pick(sizes)
            how = rng.pick(["nonsquare", "singular", "singular_zero_column", "needs_pivot", "rhs_mismatch", "mutate_result"])
            if how == "nonsquare":
                a, b = _ints(rng, n, n + 1), _rhs(rng, n)
            elif how == "singular":
                a = _ints(rng, max(n, 2), max(n, 2))
                a[-1] = [2 * v for v in a[0]]          # last row is a multiple of the first: exactly singular
                b = _rhs(rng, len(a))
            elif how == "singular_zero_column":
                m_ = max(n, 3)
                a = _dominant(rng, m_)
                c_ = rng.randrange(m_ - 1)              # not the last column: the breakdown happens in the middle of the sweeps
                for row in a:
                    row[c_] = 0
                b = _rhs(rng, m_)
            elif how == "needs_pivot":
                # non-singular, but plain (unpivoted) elimination meets a zero pivot before the last column: the plain
                # solver may legitimately raise half way through - later calls must not notice
                m_ = max(n, 3)
                a = _dominant(rng, m_)
                i_ = rng.randrange(m_ - 1)
                a[i_], a[i_ + 1] = a[i_ + 1], a[i_]
                a[i_][i_] = 0
                b = _rhs(rng, m_)
            elif how == "rhs_mismatch":
                a, b = _dominant(rng, n), _rhs(rng, n + 1)
            else:
                a, b = _dominant(rng, n), _rhs(rng, n)
            ops.append({"op": "reject", "how": how,
                        "routine": rng.pick(["lu_solve", "lu_decomposition", "matrix_determinant", "lu_factor", "matrix_inverse", "matrix_pivot"]),
                        "A": a, "b": b, "n": n})
        else:
            h = rng.pick(["vector_dot", "vector_cross", "vector_normalize", "vector_magnitude", "matrix_transpose",
                          "matrix_multiply", "binomial_coefficient", "binomial_coefficient", "linspace"])
            op = {"op": h}
            if h in ("vector_dot",):
                d = rng.randint(1, 5)
                op["v1"] = [rng.dyadic(-16, 16, 8) for _ in range(d)]
                op["v2"] = [rng.dyadic(-16, 16, 8) for _ in range(d)]
            elif h == "vector_cross":
                d = rng.pick([2, 3, 3])
                d2 = d if rng.chance(0.7) else 5 - d        # a planar vector may be crossed with a spatial one (documented: 2 or 3 elements each)
                op["v1"] = [rng.dyadic(-16, 16, 8) for _ in range(d)]
                op["v2"] = [rng.dyadic(-16, 16, 8) for _ in range(d2)]
            elif h in ("vector_normalize", "vector_magnitude"):
                d = rng.randint(1, 4)
                v = [rng.dyadic(-16, 16, 8) for _ in range(d)]
                if all(x == 0 for x in v):
                    v[0] = 1.0
                op["v1"] = v
            elif h == "matrix_transpose":
                op["A"] = _ints(rng, rng.randint(1, 5), rng.randint(1, 5))
            elif h == "matrix_multiply":
                n, p, m = rng.randint(1, 5), rng.randint(1, 5), rng.randint(1, 5)
                op["A"] = [[rng.dyadic(-8, 8, 8) for _ in range(p)] for _ in range(n)]
                op["B"] = [[rng.dyadic(-8, 8, 8) for _ in range(m)] for _ in range(p)]
            elif h == "binomial_coefficient":
                op["k"] = rng.randint(0, 24)
                op["i"] = rng.randint(0, 26)
            elif h == "linspace":
                a = rng.dyadic(-8, 8, 8)
                if rng.chance(0.3):
                    a = rng.randint(-99, 99) / 100.0        # decimal end points (0.1, 0.08, ...): (k * delta) / k is not always delta
                op["start"] = a
                op["stop"] = a + rng.randint(1, 64) / 8.0
                if rng.chance(0.3):
                    op["stop"] = rng.randint(-99, 199) / 100.0
                    if op["stop"] == a:
                        op["stop"] = a + 1.0
                op["num"] = rng.randint(2, 40)
                if rng.chance(0.25):
                    # a short interval (a parametric range in small units), possibly descending
                    op["stop"] = a + rng.pick([1, 3, 5]) * rng.pick([2.0 ** -20, 2.0 ** -24, 2.0 ** -27, 2.0 ** -30]) * rng.pick([1, 1, -1])
                if rng.chance(0.2):
                    # the documented `decimals` keyword (what evaluating a shape built with precision=k passes): this call is rounded
                    # to k decimals - and no later default call may be
                    op["decimals"] = rng.pick([2, 3, 6, 12])
            ops.append(op)
    return {"knobs": knobs, "ops": ops}


def simplify(script):
    """Candidate simplifications: cache size -> unset, smaller rhs."""
    if script["knobs"].get("cache_size") is not None:
        c = dict(script, knobs=dict(script["knobs"], cache_size=None))
        yield c
    for i, op in enumerate(script["ops"]):
        if "b" in op and len(op["b"][0]) > 1:
            c = dict(script, ops=list(script["ops"]))
            c["ops"][i] = dict(op, b=[row[:1] for row in op["b"]])
            yield c


def sample_view(script, res):
    return {"run": script["run"], "knobs": script["knobs"],
            "history": [(o["op"] + ((":" + o["mclass"] + ":n=%d" % o["n"]) if "mclass" in o else "")) for o in script["ops"]][:40],
            "first_matrix": next((o["A"] for o in script["ops"] if "A" in o), None)}


# ---------------------------------------------------------------------------------------------
# execution

def _call(op):
    """The raw library call for an op (used both in the history and in the pristine twin)."""
    L = _linalg
    k = op["op"]
    if op.get("seq") == "tuple" and op.get("held_from") is None and "A" in op:
        op = dict(op, A=tuple(tuple(r) for r in op["A"]))
    if k == "pivot_then":
        mp = L.matrix_pivot(op["A"])[0]
        if op["edit"] == "reverse":
            mp.reverse()
        else:
            mp[0], mp[-1] = mp[-1], mp[0]
        vals = [list(r_) for r_ in mp]
        if op["then"] == "matrix_determinant":
            return (vals, L.matrix_determinant(mp))
        if op["then"] == "matrix_inverse":
            return (vals, L.matrix_inverse(mp))
        return (vals, L.lu_factor(mp, op["b"]))
    if k == "lu_solve":
        return L.lu_solve(op["A"], op["b"])
    if k == "lu_factor":
        return L.lu_factor(op["A"], op["b"])
    if k == "matrix_inverse":
        return L.matrix_inverse(op["A"])
    if k == "matrix_determinant":
        return L.matrix_determinant(op["A"])
    if k == "matrix_pivot":
        return L.matrix_pivot(op["A"], sign=op["sign"])
    if k == "lu_decomposition":
        return L.lu_decomposition(op["A"])
    if k == "matrix_identity":
        return L.matrix_identity(op["n"])
    if k == "vector_dot":
        return L.vector_dot(op["v1"], op["v2"])
    if k == "vector_cross":
        return L.vector_cross(op["v1"], op["v2"])
    if k == "vector_normalize":
        return L.vector_normalize(op["v1"])
    if k == "vector_magnitude":
        return L.vector_magnitude(op["v1"])
    if k == "matrix_transpose":
        return L.matrix_transpose(op["A"])
    if k == "matrix_multiply":
        return L.matrix_multiply(op["A"], op["B"])
    if k == "binomial_coefficient":
        return L.binomial_coefficient(op["k"], op["i"])
    if k == "linspace":
        if op.get("decimals") is not None:
            return L.linspace(op["start"], op["stop"], op["num"], decimals=op["decimals"])
        return L.linspace(op["start"], op["stop"], op["num"])
    raise KeyError(k)


def _outcome(op, held=None):
    """held: {uid: {"A": obj, "b": obj}} - the argument objects the simulated caller still holds from earlier calls; an op
    with "held_from" passes the very same objects again (a caller that keeps its matrix in a variable)."""
    import copy
    call = copy.deepcopy(op)
    if held is not None:
        src = held.get(op.get("held_from"))
        if src is not None:
            if "A" in call and src.get("A") is not None:
                call["A"] = src["A"]
            if "b" in call and op.get("held_b") and src.get("b") is not None:
                call["b"] = src["b"]
        if op.get("uid") is not None:
            held[op["uid"]] = {"A": call.get("A"), "b": call.get("b")}
    try:
        return ("ok", repr(_call(call)))
    except Exception as e:  # noqa
        return ("exc", type(e).__name__)


def _pristine_outcomes(ops):
    """For each library-call op: its outcome in a process forked *before any call was made*."""
    out = {}
    for idx, op in enumerate(ops):
        if op["op"] in ("cache_clear", "reject"):
            continue
        r, w = os.pipe()
        pid = os.fork()
        if pid == 0:
            try:
                os.close(r)
                kind, val = _outcome(op)
                data = (kind + "\0" + val).encode()
                off = 0
                while off < len(data):
                    off += os.write(w, data[off:off + 65536])
            finally:
                os._exit(0)
        os.close(w)
        buf = b""
        while True:
            ch = os.read(r, 65536)
            if not ch:
                break
            buf += ch
        os.close(r)
        os.waitpid(pid, 0)
        kind, _, val = buf.decode().partition("\0")
        out[idx] = (kind, val)
    return out


def _norm_inf(m):
    return max(sum(abs(v) for v in row) for row in m)


def _residual(A, X, B):
    fa, fx, fb = R.frm(A), R.frm(X), R.frm(B)
    ax = R.mat_mul(fa, fx)
    worst = max(abs(ax[i][j] - fb[i][j]) for i in range(len(fb)) for j in range(len(fb[0])))
    bound = _norm_inf(fa) * _norm_inf(fx) + _norm_inf(fb)
    return float(worst), float(bound)


def _finite(x):
    from sim.core import flat
    for v in flat(x):
        if not isinstance(v, (int, float)) or v != v or v in (float("inf"), float("-inf")):
            return False
    return True


TOL = 1e-7


def run(script, ctx):
    from sim.core import shape_of
    ops = script["ops"]
    fresh = _pristine_outcomes(ops)
    swapped_sizes = set()
    held = {}
    L = _linalg
    for idx, op in enumerate(ops):
        ctx.step = idx
        k = op["op"]
        if k == "cache_clear":
            for name in (("matrix_identity", "binomial_coefficient") if op["which"] == "both" else
                         (("matrix_identity",) if op["which"] == "identity" else ("binomial_coefficient",))):
                fn = getattr(L, name)
                if hasattr(fn, "cache_clear"):
                    fn.cache_clear()
            ctx.fault("memo_evict")
            ctx.ops_executed += 1
            continue
        if k == "reject":
            import copy as _copy
            A_, b_ = _copy.deepcopy(op["A"]), _copy.deepcopy(op["b"])
            try:
                rt = op["routine"]
                if rt == "lu_solve":
                    out_ = L.lu_solve(A_, b_)
                elif rt == "lu_factor":
                    out_ = L.lu_factor(A_, b_)
                elif rt == "lu_decomposition":
                    out_ = L.lu_decomposition(A_)
                elif rt == "matrix_inverse":
                    out_ = L.matrix_inverse(A_)
                elif rt == "matrix_pivot":
                    out_ = L.matrix_pivot(A_)
                else:
                    out_ = L.matrix_determinant(A_)
                if op.get("how") == "mutate_result":
                    # the caller owns what it was given: scribbling over a returned result must not reach into the library
                    def scribble(x):
                        if isinstance(x, list):
                            for i_ in range(len(x)):
                                if isinstance(x[i_], (list, tuple)):
                                    scribble(x[i_])
                                else:
                                    x[i_] = 99.0
                        elif isinstance(x, tuple):
                            for y in x:
                                scribble(y)
                    scribble(out_)
                    ctx.probe("caller_mutated_a_returned_result")
                ctx.log("reject", "returned")
            except Exception as e:  # any rejection is fine; nothing is asserted about the faulted call
                ctx.log("reject", type(e).__name__)
            ctx.fault("rejected_input:" + op.get("how", "nonsquare"))
            ctx.ops_executed += 1
            continue

        if op.get("held_from") is not None and op["held_from"] in held:
            ctx.probe("caller_passes_the_same_matrix_object_again")
        kind, val = _outcome(op, held)
        ctx.ops_executed += 1
        ctx.log(k, op.get("mclass"), op.get("n"), kind, val if kind == "exc" else None)
        mclass = op.get("mclass", "-")
        n = op.get("n")
        sig = dict(routine=k, mclass=mclass)

        # --- (1) history independence: bit-identical with the pristine process
        if fresh[idx] != (kind, val):
            ctx.fail("history_dependent", "%s (%s, n=%s) answered differently after this history than in a pristine process\n"
                     "  after history: %s %s\n  pristine     : %s %s" % (k, mclass, n, kind, val[:600], fresh[idx][0], fresh[idx][1][:600]), **sig)

        if n is not None and k in ("matrix_pivot", "matrix_inverse", "lu_factor", "matrix_determinant", "matrix_identity") \
                and n in swapped_sizes:
            ctx.nontrivial = True
            ctx.probe("identity_consumer_after_swap_same_size")

        if kind == "exc":
            must_return = (k == "lu_solve" and mclass in ("dominant", "colloc")) or \
                          (k in ("matrix_identity", "vector_dot", "vector_cross", "vector_normalize", "vector_magnitude",
                                 "matrix_transpose", "matrix_multiply", "binomial_coefficient", "linspace", "matrix_pivot"))
            if must_return:
                ctx.fail("solver_raised", "%s raised %s for a %s matrix / valid input" % (k, val, mclass), **sig)
            ctx.probe("call_raised_allowed")
            continue
        res = eval(val, {"inf": float("inf"), "nan": float("nan")})  # repr of lists/tuples/floats only

        # --- (2) defining equations, exact arithmetic
        if k in MATRIX_ROUTINES and mclass in ("dominant_perm", "general_swap", "breakdown"):
            order, _ = R.static_pivot(R.frm(op["A"]))
            if order != list(range(n)):
                swapped_sizes.add(n)
                ctx.probe("row_swap_needed")
        if k == "pivot_then":
            vals, res2 = res
            ctx.probe("returned_pivot_matrix_edited_and_passed_on")
            if op["then"] == "matrix_determinant":
                exact = R.det(R.frm(vals))
                if not isinstance(res2, float) or abs(R.fr(res2) - exact) > F(1, 10 ** 9) * max(abs(exact), F(1, 10 ** 6)):
                    ctx.fail("wrong_result", "matrix_determinant of the (re-ordered) matrix returned by matrix_pivot = %r, exact %s   M=%r" % (
                        res2, exact, vals), **sig)
            elif op["then"] == "matrix_inverse":
                ident = [[1 if i_ == j_ else 0 for j_ in range(n)] for i_ in range(n)]
                worst, bound = _residual(vals, res2, ident)
                if worst > TOL * bound:
                    ctx.fail("wrong_result", "matrix_inverse of the (re-ordered) matrix returned by matrix_pivot: |M M^-1 - I| = %.3g   M=%r" % (worst, vals), **sig)
            else:
                worst, bound = _residual(vals, res2, op["b"])
                if worst > TOL * bound:
                    ctx.fail("wrong_result", "lu_factor on the (re-ordered) matrix returned by matrix_pivot: |M x - b| = %.3g   M=%r" % (worst, vals), **sig)
            ctx.state("%s:%s" % (k, op["then"]))
            continue
        if k in ("lu_solve", "lu_factor"):
            if shape_of(res) != shape_of(op["b"]) or not _finite(res):
                ctx.fail("wrong_result", "%s returned shape %r / non-finite for rhs shape %r" % (k, shape_of(res), shape_of(op["b"])), **sig)
            worst, bound = _residual(op["A"], res, op["b"])
            if worst > TOL * bound:
                ctx.fail("wrong_result", "%s: |A x - b| = %.3g > %.1e * %.3g   A=%r b=%r x=%r" % (k, worst, TOL, bound, op["A"], op["b"], res), **sig)
        elif k == "matrix_inverse":
            if shape_of(res) != [n, n] or not _finite(res):
                ctx.fail("wrong_result", "matrix_inverse returned shape %r / non-finite" % (shape_of(res),), **sig)
            ident = [[1 if i == j else 0 for j in range(n)] for i in range(n)]
            worst, bound = _residual(op["A"], res, ident)
            if worst > TOL * bound:
                ctx.fail("wrong_result", "matrix_inverse: |A A^-1 - I| = %.3g > %.1e * %.3g   A=%r inv=%r" % (worst, TOL, bound, op["A"], res), **sig)
        elif k == "matrix_determinant":
            exact = R.det(R.frm(op["A"]))
            had = F(1)
            for row in R.frm(op["A"]):
                had *= sum(abs(v) for v in row)
            floor = min(F(1, 10 ** 6), F(1, 10 ** 6) * had)      # relative to the size of the entries (Hadamard-type bound >= |det|)
            if floor < F(1, 10 ** 6):
                ctx.probe("determinant_of_small_magnitude_matrix")
            if not isinstance(res, float) or res != res or abs(R.fr(res) - exact) > F(1, 10 ** 9) * max(abs(exact), floor):
                ctx.fail("wrong_result", "matrix_determinant = %r, exact %s (%.17g)   A=%r" % (res, exact, float(exact), op["A"]), **sig)
        elif k == "matrix_pivot":
            if op["sign"]:
                if not (isinstance(res, tuple) and len(res) == 3):
                    ctx.fail("wrong_result", "matrix_pivot(sign=True) did not return a 3-tuple", **sig)
                mp, p, sgn = res
            else:
                if not (isinstance(res, tuple) and len(res) == 2):
                    ctx.fail("wrong_result", "matrix_pivot did not return a 2-tuple", **sig)
                mp, p = res
                sgn = None
            perm = R.is_permutation(p) if shape_of(p) == [n, n] else None
            if perm is None:
                ctx.fail("pivot_not_permutation", "matrix_pivot returned P = %r, not a permutation matrix (A=%r)" % (p, op["A"]), **sig)
            expect = [list(op["A"][perm[i]]) for i in range(n)]
            if shape_of(mp) != [n, n] or any(float(x) != float(y) for r1, r2 in zip(mp, expect) for x, y in zip(r1, r2)):
                ctx.fail("pivot_rows_mismatch", "matrix_pivot returned %r, but P A = %r (P=%r)" % (mp, expect, p), **sig)
            if sgn is not None and float(sgn) != float(R.perm_sign(perm)):
                ctx.fail("pivot_sign", "matrix_pivot sign %r, det P = %d (P=%r)" % (sgn, R.perm_sign(perm), p), **sig)
            if perm != list(range(n)):
                swapped_sizes.add(n)
                ctx.probe("row_swap_performed")
        elif k == "lu_decomposition":
            ml, mu = res
            if shape_of(ml) != [n, n] or shape_of(mu) != [n, n] or not _finite(res):
                ctx.fail("wrong_result", "lu_decomposition shapes %r %r" % (shape_of(ml), shape_of(mu)), **sig)
            if any(ml[i][j] != 0 for i in range(n) for j in range(i + 1, n)) or any(ml[i][i] != 1 for i in range(n)) \
                    or any(mu[i][j] != 0 for i in range(n) for j in range(i)):
                ctx.fail("wrong_result", "lu_decomposition: L not unit lower / U not upper triangular: L=%r U=%r" % (ml, mu), **sig)
            worst, bound = _residual(ml, mu, op["A"])
            if worst > TOL * bound:
                ctx.fail("wrong_result", "lu_decomposition: |L U - A| = %.3g (A=%r)" % (worst, op["A"]), **sig)
        elif k == "matrix_identity":
            ident = [[1.0 if i == j else 0.0 for j in range(n)] for i in range(n)]
            if res != ident:
                ctx.fail("wrong_result", "matrix_identity(%d) = %r" % (n, res), **sig)
        elif k == "vector_dot":
            ex = sum(R.fr(a) * R.fr(b) for a, b in zip(op["v1"], op["v2"]))
            if abs(R.fr(res) - ex) > F(1, 10 ** 9) * max(1, abs(ex)):
                ctx.fail("wrong_result", "vector_dot(%r,%r) = %r, exact %s" % (op["v1"], op["v2"], res, ex), **sig)
        elif k == "vector_cross":
            a = [R.fr(x) for x in op["v1"]] + ([F(0)] if len(op["v1"]) == 2 else [])
            b = [R.fr(x) for x in op["v2"]] + ([F(0)] if len(op["v2"]) == 2 else [])
            ex = [a[1] * b[2] - a[2] * b[1], a[2] * b[0] - a[0] * b[2], a[0] * b[1] - a[1] * b[0]]
            if len(res) != 3 or any(abs(R.fr(x) - y) > F(1, 10 ** 9) * max(1, abs(y)) for x, y in zip(res, ex)):
                ctx.fail("wrong_result", "vector_cross(%r,%r) = %r, exact %r" % (op["v1"], op["v2"], res, [float(e) for e in ex]), **sig)
        elif k == "vector_magnitude":
            ex = math.sqrt(float(sum(R.fr(x) ** 2 for x in op["v1"])))
            if abs(res - ex) > 1e-9 * max(1.0, ex):
                ctx.fail("wrong_result", "vector_magnitude(%r) = %r, expected %r" % (op["v1"], res, ex), **sig)
        elif k == "vector_normalize":
            mag = math.sqrt(float(sum(R.fr(x) ** 2 for x in op["v1"])))
            ex = [x / mag for x in op["v1"]]
            if len(res) != len(ex) or any(abs(x - y) > 1e-9 for x, y in zip(res, ex)):
                ctx.fail("wrong_result", "vector_normalize(%r) = %r, expected %r" % (op["v1"], res, ex), **sig)
        elif k == "matrix_transpose":
            ex = [[op["A"][j][i] for j in range(len(op["A"]))] for i in range(len(op["A"][0]))]
            if [[float(v) for v in r] for r in res] != [[float(v) for v in r] for r in ex]:
                ctx.fail("wrong_result", "matrix_transpose(%r) = %r" % (op["A"], res), **sig)
        elif k == "matrix_multiply":
            ex = R.mat_mul(R.frm(op["A"]), R.frm(op["B"]))
            if shape_of(res) != [len(ex), len(ex[0])] or any(abs(R.fr(x) - y) > F(1, 10 ** 9) * max(1, abs(y))
                                                             for r1, r2 in zip(res, ex) for x, y in zip(r1, r2)):
                ctx.fail("wrong_result", "matrix_multiply(%r,%r) = %r" % (op["A"], op["B"], res), **sig)
        elif k == "binomial_coefficient":
            ex = R.comb(op["k"], op["i"])
            if abs(res - ex) > 1e-9 * max(1, ex):
                ctx.fail("wrong_result", "binomial_coefficient(%d,%d) = %r, exact %d" % (op["k"], op["i"], res, ex), **sig)
        elif k == "linspace":
            a, b, num = op["start"], op["stop"], op["num"]
            ex = [a + (b - a) * t / (num - 1) for t in range(num)]
            lo_, hi_ = min(a, b) - 1e-18, max(a, b) + 1e-18      # (the samples are rounded to the documented 18 decimals)
            if op.get("decimals") is None and len(res) == num and any(not (lo_ <= x <= hi_) for x in res):
                ctx.fail("wrong_result", "linspace(%r,%r,%d) leaves the interval: %r" % (a, b, num, [x for x in res if not (lo_ <= x <= hi_)][:3]), **sig)
            if op.get("decimals") is not None:
                ctx.probe("linspace_with_decimals")
                half = 0.5 * 10.0 ** -op["decimals"] * (1 + 1e-9) + 1e-12
                if len(res) != num or any(abs(x - y) > half for x, y in zip(res, ex)):
                    ctx.fail("wrong_result", "linspace(%r,%r,%d,decimals=%d) = %r" % (a, b, num, op["decimals"], res), **sig)
            elif len(res) != num or any(abs(x - y) > 1e-9 * max(abs(b - a), 1e-9 * max(1.0, abs(a), abs(b))) for x, y in zip(res, ex)):
                ctx.fail("wrong_result", "linspace(%r,%r,%d) = %r" % (a, b, num, res), **sig)
        ctx.state("%s:%s" % (k, mclass))
