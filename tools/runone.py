"""Debug helper: execute one generated run in this process (no zygote):  tools/runone.py C17 4 [seed]"""
import sys, os, json, faulthandler
sys.path.insert(0, os.path.dirname(os.path.dirname(os.path.abspath(__file__))))
from sim import core, runner
core.setup_import_path()
from machines import REGISTRY
import importlib
prop, run = sys.argv[1], int(sys.argv[2])
seed = int(sys.argv[3]) if len(sys.argv) > 3 else core.DEFAULT_SEED
mn = REGISTRY[prop]
script = runner.make_script(mn, prop, seed, run, "quick", [])
cs = script["knobs"].get("cache_size")
if cs is not None:
    os.environ["GEOMDL_CACHE_SIZE"] = cs
m = importlib.import_module(mn)
m.prepare()
script["trace"] = True
res = runner.execute_in_this_process(m, script)
tr = res.pop("trace", [])
for l in tr[-40:]:
    print("|", l[:300])
print(json.dumps({k: v for k, v in res.items()}, indent=1)[:6000])
