"""tools/mkmutant.py NAME FILE <<< 'OLD\n=====\nNEW'   -> selftest/mutants/NAME.diff (diff of /repo/FILE with OLD replaced by NEW)"""
import difflib, sys, os
name, rel = sys.argv[1], sys.argv[2]
old, new = sys.stdin.read().split("\n=====\n")
new = new.rstrip("\n") if not new.endswith("\n\n") else new
src = open(os.path.join("/repo", rel)).read()
assert src.count(old.rstrip("\n")) == 1, "OLD must occur exactly once (%d)" % src.count(old.rstrip("\n"))
dst = src.replace(old.rstrip("\n"), new.rstrip("\n"))
d = "".join(difflib.unified_diff(src.splitlines(True), dst.splitlines(True), "a/" + rel, "b/" + rel))
out = os.path.join(os.path.dirname(os.path.dirname(os.path.abspath(__file__))), "selftest", "mutants", name + ".diff")
mode = "a" if os.path.exists(out) and "--append" in sys.argv else "w"
open(out, mode).write(d)
print("wrote", out, len(d.splitlines()), "lines")
