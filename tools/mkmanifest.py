"""Regenerates MANIFEST.json from the registry (run: /venv/bin/python tools/mkmanifest.py)."""
import json
import os
import sys

HERE = os.path.dirname(os.path.dirname(os.path.abspath(__file__)))
sys.path.insert(0, HERE)
from machines import REGISTRY  # noqa

CLAIMS = {
    "C04": ("DESIGN.md §5 C04/C06",
            "seeded search over insertion histories on 1-3 interleaved live shapes (method and operations API, all directions, on "
            "existing knots and inside spans) with rejected insertions, memo evictions and the cache-size knob; after every step the "
            "public definition is evaluated with an independent Cox-de Boor model against the original function, and knot vectors / "
            "sizes against the specification. A clean batch is evidence, not proof.",
            "trusts the independent spline model (float, exact Fractions in a tenth of the runs), bounded dyadic inputs, fork isolation",
            "deterministic simulation: seeded operation histories over stateful objects sharing process-global memos, rejected-operation "
            "and memo-eviction faults, reference-model oracle per step"),
    "C06": ("DESIGN.md §5 C04/C06",
            "same engine as C04 with removals: histories insert / refine then remove knots the model knows to be removable, in any "
            "direction and order, interleaved over several objects; after every removal the definition must still be the original "
            "function and when all removable knots are gone the control net must be the original one.",
            "as C04; histories whose insertion/refinement already breaks the shape are counted outside the precondition",
            "deterministic simulation: seeded insert/refine/remove histories, memo-eviction faults, reference-model oracle per step"),
    "C09": ("DESIGN.md §5 C09",
            "seeded setter/getter histories over the three views of rational shapes and the weighted grid generator, with rejected "
            "setters while caches are warm, against an exact (P_i, w_i) reference model checked after every step.",
            "trusts the reference model and bounded dyadic inputs",
            "deterministic simulation: seeded setter/getter histories with rejected-setter faults against a reference model"),
    "C12": ("DESIGN.md §5 C12",
            "seeded search over histories of public edits, reads, rejected edits, deep copies and container operations; every read is "
            "compared with a freshly built twin of the object's public definition, untargeted objects must keep their definition. "
            "A clean batch is evidence, not proof.",
            "trusts the twin builder (same library code on the same public definition: differential oracle), fork isolation",
            "deterministic simulation: seeded edit/read histories with rejected-edit and memo-eviction faults, differential twin oracle"),
    "C14": ("DESIGN.md §5 C14",
            "seeded export/import histories against a simulated disk with I/O errors, crashes mid-write, process restarts (module purge "
            "and re-import under another cache size) and shuffled directory listings; acknowledged files must read back (library "
            "importer and independent parsers) to the exported definition at any later time and in any later process.",
            "trusts SimDisk's model of buffered file objects (calibrated against real files), the independent format readers",
            "deterministic simulation: seeded export/import/restart histories on an in-memory disk with injected I/O faults and crashes"),
    "C15": ("DESIGN.md §5 C15",
            "seeded histories over surfaces, a container, SimPool schedules and mesh writers on SimDisk; whatever mesh an object reports "
            "in its current state must satisfy the mesh-validity checker, lie on the surface at the stored uv, and be what the writers emit.",
            "trusts the mesh checker and the independent OBJ/OFF/STL parsers; trims judged conservatively",
            "deterministic simulation: seeded tessellation/edit/export histories under simulated pool schedules and disk faults"),
    "C16": ("DESIGN.md §5 C16",
            "seeded search over call histories of the linalg routines inside one process whose memos persist between calls, with memo "
            "evictions, cache-size knob and rejected inputs injected; every call is judged against exact rational arithmetic and against "
            "the same call in a pristine process. A clean batch is evidence, not proof.",
            "trusts Python's fractions, fork isolation between runs, and the bounded input classes listed in the evidence assumptions",
            "deterministic simulation: seeded call histories + memo-eviction faults in a forked process per run, exact-arithmetic "
            "reference model, pristine-process differential"),
    "C17": ("DESIGN.md §5 C17",
            "one seeded workload is executed under the baseline configuration and under sampled configuration vectors (span search, "
            "evaluator, knot normalisation with affine ranges, num_procs, GEOMDL_CACHE_SIZE), pooled operations under many simulated "
            "pool schedules with worker faults; all observables must agree with the baseline after the affine mapping the statement names.",
            "trusts SimPool's fidelity to multiprocessing.Pool semantics (calibrated against the real pool), the affine mapping rules",
            "deterministic simulation: seeded workloads x configuration vectors x simulated process-pool schedules with worker faults, "
            "differential against the baseline configuration"),
}

NOT_APPLICABLE = {
    "C01": "a point is a pure function of (definition, parameter): no schedule, clock, stream, fault or interleaving can change it; its stateful slices (cached sample grid, sampling density) are decided under C12, span-search/normalisation knobs under C17",
    "C02": "derivative values are pure functions of (definition, parameter, order); that the selectable evaluator variants agree and never make a valid call fail is decided under C17; that the common value is the true derivative has no simulation dimension",
    "C03": "helpers.* and knotvector.* basis/span routines are pure functions of their arguments",
    "C05": "refinement is a one-shot pure transformation of a definition; as an edit inside histories its cache hygiene is under C12 and the knots it creates are removal candidates under C06",
    "C07": "split/decompose return new objects computed from a deep copy: pure; 'input is not modified' is a purity clause, not a scheduling one",
    "C08": "degree_elevation/degree_reduction are pure list -> list helpers (their memoised binomials are under C16/C17)",
    "C10": "affine maps applied to control points, pure; in-place variants appear as edits and non-in-place variants as copy sources in C12",
    "C11": "fitting is a pure function of the data points (the LU routines it calls are under C16)",
    "C13": "index arithmetic and permutations of a flat list: pure",
    "C18": "a geometric inequality about a pure function",
    "C19": "== is a pure function of two definitions",
    "C20": "ray/polygon/hull/lookup predicates are pure; the only seam in its anchors, the multi-process voxel path, is decided under C17",
}


def main():
    claimed = sorted(REGISTRY)
    checks = []
    for pid in claimed:
        ref, text, note, tech = CLAIMS[pid]
        checks.append({
            "property_id": pid,
            "quick_cmd": "./check %s --tier quick" % pid,
            "thorough_cmd": "./check %s --tier thorough" % pid,
            "evidence_file": "evidence/%s.json" % pid,
            "replay_cmd_template": "./check %s --replay {path}" % pid,
            "engine": "sim",
            "level_claimed": {"category": "exploration", "text": text, "design_ref": ref},
            "level_note": note,
            "technique": tech,
        })
    na = [{"property_id": k, "reason": v} for k, v in sorted(NOT_APPLICABLE.items())]
    for pid in sorted(CLAIMS):
        if pid not in REGISTRY:
            na.append({"property_id": pid, "reason": "planned (DESIGN.md §5) but its machine is not built yet in this commit - not claimed until it is"})
    man = {
        "version": 1,
        "setup_cmd": "sh ./setup.sh",
        "hooks": {
            "guard": "GEOMDL_VERIF",
            "enable": "no source hook exists: every seam (worker pool, file I/O, memo eviction, process restart) is installed from /verif at run time by attribute injection into the imported working tree; the guard name is reserved and unused",
            "baseline_off_cmd": "cd /repo && /venv/bin/python -m pytest -ra -q -p no:cacheprovider --timeout=900 --continue-on-collection-errors",
            "source_commits": [],
            "add_only": True,
        },
        "engines": [{"name": "sim", "path": "sim/", "serves_properties": claimed,
                     "kind_free_text": "seeded deterministic simulator: one forked process per simulated run (zygote per GEOMDL_CACHE_SIZE), seeded operation/fault histories, SimPool (lock-step forked workers, discrete-event schedule), SimDisk (in-memory file system with fault injection), ddmin minimisation, JSON replay files"}],
        "checks": checks,
        "not_applicable": sorted(na, key=lambda x: x["property_id"]),
        "notes": "Known findings and fixed defects: known_findings.json. Self-tests: selftest/. See DESIGN.md.",
    }
    with open(os.path.join(HERE, "MANIFEST.json"), "w") as f:
        json.dump(man, f, indent=1)
    print("MANIFEST.json: %d checks, %d not applicable" % (len(checks), len(na)))


if __name__ == "__main__":
    main()
