"""tools/keepseed.py <worktree> <seed-id> <property> "<what it needs to manifest>"

Confirms a sub-agent's seeded change independently and, if everything holds, keeps it under /verif/seeded/<seed-id>/:
  1. the worktree differs from HEAD only under geomdl/ (plus the demo file)
  2. with the change: library imports, the 222-test suite passes, the demo FAILS (exit != 0)
  3. without the change (git stash): the demo PASSES (exit 0)
Then writes patch.diff, the demo and meta.json. Detection by the checks is recorded separately (selftest/mutants.py).
"""
import json
import os
import shutil
import subprocess
import sys

PY = "/venv/bin/python"
VERIF = os.path.dirname(os.path.dirname(os.path.abspath(__file__)))


def sh(cmd, cwd, env=None, timeout=1200):
    r = subprocess.run(cmd, cwd=cwd, env=env, shell=isinstance(cmd, str), stdout=subprocess.PIPE, stderr=subprocess.STDOUT,
                       stdin=subprocess.DEVNULL, timeout=timeout)
    return r.returncode, r.stdout.decode(errors="replace")


def main():
    wt, sid, prop, needs = sys.argv[1], sys.argv[2], sys.argv[3], sys.argv[4]
    env = dict(os.environ, PYTHONPATH=wt, PYTHONDONTWRITEBYTECODE="1")
    rc, diff = sh(["git", "diff", "--", "geomdl"], wt)
    if not diff.strip():
        print("REJECT: no change under geomdl/")
        return 1
    rc, other = sh(["git", "status", "--short"], wt)
    demos = [ln.split()[-1] for ln in other.splitlines() if ln.startswith("??") and ln.split()[-1].startswith("demo")]
    if not demos:
        print("REJECT: no demo file\n" + other)
        return 1
    demo = demos[0]
    rc_suite, out_suite = sh([PY, "-m", "pytest", "tests", "-q", "-p", "no:cacheprovider", "--timeout=900", "--ignore=tests/test_visualization.py"], wt, env)
    tail = out_suite.strip().splitlines()[-1] if out_suite.strip() else ""
    if rc_suite != 0:
        print("REJECT: suite fails with the change: " + tail)
        return 1
    rc_with, out_with = sh([PY, demo], wt, env, 600)
    sh(["git", "stash", "push", "--", "geomdl"], wt)
    try:
        rc_without, out_without = sh([PY, demo], wt, env, 600)
    finally:
        rc_pop, out_pop = sh(["git", "stash", "pop"], wt)
    if rc_pop != 0:
        print("stash pop failed: " + out_pop)
        return 1
    if rc_with == 0 or rc_without != 0:
        print("REJECT: demo exit with change = %d (must be != 0), without = %d (must be 0)\n--- with:\n%s\n--- without:\n%s" % (
            rc_with, rc_without, out_with[-1500:], out_without[-1500:]))
        return 1
    d = os.path.join(VERIF, "seeded", sid)
    os.makedirs(d, exist_ok=True)
    with open(os.path.join(d, "patch.diff"), "w") as f:
        f.write(diff)
    shutil.copy(os.path.join(wt, demo), os.path.join(d, demo))
    rc, head = sh(["git", "rev-parse", "HEAD"], wt)
    meta = {"id": sid, "property": prop, "written_by": "independent sub-agent given only the property text and a scratch worktree",
            "base_commit": head.strip(), "needs_to_manifest": needs, "demo": demo,
            "confirmed": {"suite_with_change": tail, "demo_exit_with_change": rc_with, "demo_exit_without_change": rc_without,
                          "demo_output_with_change": out_with.strip()[-600:]},
            "ran": ["cd <worktree> && PYTHONPATH=<worktree> /venv/bin/python -m pytest tests -q -p no:cacheprovider --ignore=tests/test_visualization.py",
                    "PYTHONPATH=<worktree> /venv/bin/python %s   (with the change, and after git stash)" % demo],
            "detected_by": [prop], "detection": "pending"}
    with open(os.path.join(d, "meta.json"), "w") as f:
        json.dump(meta, f, indent=1)
    print("KEPT %s: suite '%s', demo %d/%d" % (d, tail, rc_with, rc_without))
    print(diff[:3000])
    return 0


if __name__ == "__main__":
    sys.exit(main())
