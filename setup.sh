#!/bin/sh
# Offline setup: nothing to build (pure Python, stdlib only). Verifies the interpreter and the working tree import.
set -e
PY="${VERIF_PYTHON:-/venv/bin/python}"
[ -x "$PY" ] || PY="$(command -v python3)"
"$PY" - <<'PYEOF'
import sys
sys.path.insert(0, "/repo")
import geomdl
print("setup ok: python %s, geomdl %s from %s" % (sys.version.split()[0], geomdl.__version__, geomdl.__file__))
PYEOF
mkdir -p evidence replays
