"""False-alarm self-test: behaviour-preserving changes (benign/<id>/patch.diff, written by independent sub-agents that were asked for
CORRECT refactorings of the code behind a property) must leave EVERY check silent.

usage: selftest/benign.py [--own] [--record] [name-substring ...]     (--own: only the check of the patch's own property)
"""
import glob
import json
import os
import re
import shutil
import subprocess
import sys

sys.path.insert(0, os.path.dirname(os.path.abspath(__file__)))
from mutants import scratch_with, run_check, HERE  # noqa

sys.path.insert(0, HERE)
from machines import REGISTRY  # noqa


def main():
    args = [a for a in sys.argv[1:] if not a.startswith("--")]
    bad = 0
    for patch in sorted(glob.glob(os.path.join(HERE, "benign", "*", "patch.diff"))):
        name = os.path.basename(os.path.dirname(patch))
        if args and not any(a in name for a in args):
            continue
        d = scratch_with(patch)
        try:
            r = subprocess.run(["/venv/bin/python", "-m", "pytest", "-q", "-x", "-p", "no:cacheprovider", "--timeout=900", "tests",
                                "--ignore=tests/test_visualization.py"], cwd=d, env=dict(os.environ, PYTHONPATH=d),
                               stdout=subprocess.PIPE, stderr=subprocess.STDOUT)
            res = ["suite:%s" % ("pass" if r.returncode == 0 else "FAIL")]
            for prop in sorted(REGISTRY):
                if "--own" in sys.argv and prop != name.split("-")[0]:
                    continue
                rc, out = run_check(prop, d, ["--tier", "quick"])
                if rc == 0:
                    res.append("%s:quiet" % prop)
                else:
                    m = re.search(r"class=(\S+)", out)
                    res.append("%s:ALARM(rc=%d,%s)" % (prop, rc, m.group(1) if m else "?"))
                    bad += 1
                    with open("/tmp/benign_alarm_%s_%s.out" % (name, prop), "w") as f:
                        f.write(out)
            print("%-28s %s" % (name, " ".join(res)), flush=True)
            if "--record" in sys.argv:
                mp = os.path.join(os.path.dirname(patch), "meta.json")
                meta = json.load(open(mp)) if os.path.exists(mp) else {}
                meta["checks_quick"] = res
                json.dump(meta, open(mp, "w"), indent=1)
        finally:
            shutil.rmtree(d, ignore_errors=True)
    return 1 if bad else 0


if __name__ == "__main__":
    sys.exit(main())
