"""Determinism self-test: the batch digest of every check must be a pure function of (seed, code).

For every claimed property: N runs with 16, 4 and 1 runner processes, twice with 16, and once in an interpreter
started under another PYTHONHASHSEED. All digests must be equal.  Usage: selftest/determinism.py [N] [props...]
"""
import os
import subprocess
import sys

HERE = os.path.dirname(os.path.dirname(os.path.abspath(__file__)))
sys.path.insert(0, HERE)
from machines import REGISTRY  # noqa


def digest(prop, n, jobs, hashseed="0", seed="777"):
    env = dict(os.environ, VERIF_HASHSEED=hashseed, VERIF_SEED=seed)
    out = subprocess.run([os.path.join(HERE, "check"), prop, "--runs", str(n), "--jobs", str(jobs), "--digest-only", "--no-evidence"],
                         env=env, stdout=subprocess.PIPE, stderr=subprocess.DEVNULL, stdin=subprocess.DEVNULL, timeout=1800).stdout.decode()
    for ln in out.splitlines():
        if ln.startswith("BATCH-DIGEST"):
            return ln.split()[1]
    return "NO-DIGEST:" + out[-300:]


def main():
    n = int(sys.argv[1]) if len(sys.argv) > 1 else 256
    props = sys.argv[2:] or sorted(REGISTRY)
    bad = 0
    for p in props:
        ds = {"j16": digest(p, n, 16), "j16-again": digest(p, n, 16), "j4": digest(p, n, 4), "j1": digest(p, max(32, n // 4), 1),
              "j16-hashseed-4242": digest(p, n, 16, hashseed="4242")}
        ref1 = digest(p, max(32, n // 4), 16)
        ok = len({ds["j16"], ds["j16-again"], ds["j4"], ds["j16-hashseed-4242"]}) == 1 and ds["j1"] == ref1
        print("%s %s  %s" % (p, "DETERMINISTIC" if ok else "DIVERGED", ds if not ok else ds["j16"]))
        bad += 0 if ok else 1
    return 1 if bad else 0


if __name__ == "__main__":
    sys.exit(main())
