"""Reach self-test: after the quick tier of every check has written its evidence, every fault kind and every 'rare condition'
probe the design relies on must have fired. A probe stuck at zero is a defect of the workload (not of the library).

usage: selftest/reach.py   (reads evidence/*.json; run the quick checks first)
"""
import json
import os
import sys

HERE = os.path.dirname(os.path.dirname(os.path.abspath(__file__)))
REQ = {
    "C04": {"faults": ["memo_evict", "rejected_insert", "partially_rejected_insert"],
            "probes": ["insert_on_existing_knot", "insert_on_knot_mult_ge_2", "evalpts_checked_after_modification", "reject_after_cache_warm",
                       "unnormalised_object", "object:volume", "object:surface:rational", "object:curve",
                       "caller_held_count_list:1", "caller_held_count_list:degree", "one_knot_vector_list_for_all_directions",
                       "knot_vector_lists_shared_by_two_objects", "object_built_from_the_getters_of_another", "checks_disabled_by_caller"]},
    "C06": {"faults": ["memo_evict", "rejected_remove"],
            "probes": ["removal_after_unrelated_operation", "removal_count_ge_2", "partial_removal", "full_restoration_checked",
                       "refine_as_source_of_removable_knots", "unnormalised_object", "object:volume:rational",
                       "caller_held_count_list:remove", "object_built_from_the_getters_of_another", "knot_named_with_float_noise",
                       "partial_domain_evaluation_before_modification", "evalpts_checked_against_reference_model", "checks_disabled_by_caller"]},
    "C09": {"faults": ["rejected_setter"],
            "probes": ["setter_of_other_view_after_read", "getter_list_fed_back_into_setter", "conversion_checked", "grid_read_checked",
                       "nurbs_to_bspline_on_weights_le_1", "getter_list_edited_in_place_and_written_back", "setter_given_tuples",
                       "helpers_given_tuples", "set_through_ctrlpts2d", "control_polygon_resized_through_ctrlpts",
                       "conversion_of_unnormalised_shape", "grid_bumps", "deep_copy_edited_in_place_and_written_back",
                       "caller_reused_its_weight_list_after_the_setter", "weight_within_1e-7_of_one"]},
    "C12": {"faults": ["memo_evict", "rejected_edit:bad_delta", "rejected_edit:bad_knots", "rejected_edit:bad_point", "rejected_edit:bad_insert"],
            "probes": ["read_after_edit_of_warm_object", "rejected_edit_while_cache_warm", "copy_created", "element_edit_while_container_cache_warm", "container_deepcopy_checked", "container_tessellate_on_simulated_pool",
                       "container_read_after_edit_of_warm_container", "caller_reused_its_argument_list_after_the_setter",
                       "partial_domain_evaluation", "evalpts_checked_against_reference_model", "decompose_single_piece"]},
    "C14": {"faults": ["open_fails", "write_fails", "close_fails", "read_fails", "crash"],
            "probes": ["restart", "restart_after_crash", "restart_with_ge_2_acknowledged_files", "overwrite_after_failed_export",
                       "import_after_restart_or_overwrite_after_failure", "directory_import_checked", "listdir_shuffled", "independent_reader_checks",
                       "caller_reused_its_argument_list_after_the_setter"]},
    "C15": {"faults": ["worker_raises", "open_fails", "write_fails", "close_fails", "failing_tessellate_call"],
            "probes": ["surface_copied:deepcopy", "surface_copied:translate", "mesh_observed_after_intervening_change", "vertex_spacing_gt_1", "container_mesh_checked", "quad_checked",
                       "mesh_file_checked:obj", "mesh_file_checked:off", "mesh_file_checked:stl_ascii", "mesh_file_checked:stl_bin",
                       "trim_cell_inside_checked", "trim_cell_outside_checked", "container_tessellate_hit_by_worker_fault", "mesh_export_hit_by_fault",
                       "container_given_used_tessellator", "partial_domain_evaluation_before_mesh", "tessellator_used_directly:spacing_gt_1",
                       "unnormalised_surface", "trim_added_to_a_tessellated_surface", "container_export_compared_with_container_mesh",
                       "container_partially_traversed_before_export"]},
    "C16": {"faults": ["memo_evict", "rejected_input:nonsquare", "rejected_input:singular", "rejected_input:singular_zero_column", "rejected_input:needs_pivot", "rejected_input:rhs_mismatch", "rejected_input:mutate_result"],
            "probes": ["identity_consumer_after_swap_same_size", "row_swap_performed", "row_swap_needed", "determinant_of_small_magnitude_matrix",
                       "caller_passes_the_same_matrix_object_again", "returned_pivot_matrix_edited_and_passed_on", "linspace_with_decimals"]},
    "C17": {"faults": ["worker_raises", "slow_worker", "late_result"],
            "probes": ["config_dim:num_procs", "config_dim:span", "config_dim:evaluator", "config_dim:normalize", "config_dim:cache_size",
                       "pooled_call_with_ge_2_chunks", "chunks_completed_out_of_order", "baseline_reimported_with_cache_unset"],
            "counters_prefix_ok": "baseline_ok:"},
}
C17_OPS = ["eval", "eval_list", "sample", "delta", "deriv", "insert", "remove", "refine", "split", "decompose", "tangent", "normal",
           "tessellate", "voxelize", "evalrange", "cadd", "ctess", "cread", "edit_handle", "length", "hodograph", "find_ctrlpts", "remove_orig"]


def main():
    bad = 0
    for pid, req in sorted(REQ.items()):
        p = os.path.join(HERE, "evidence", pid + ".json")
        if not os.path.exists(p):
            print("%s: no evidence file" % pid)
            bad += 1
            continue
        cov = json.load(open(p))["coverage"]
        missing = [f for f in req["faults"] if not cov["faults_fired"].get(f)]
        missing += [q for q in req["probes"] if not cov["reach_probes"].get(q)]
        if pid == "C17":
            missing += ["baseline_ok:" + o for o in C17_OPS if not cov["counters"].get("baseline_ok:" + o)]
        if cov.get("counters", {}).get("seam_bypassed"):
            missing.append("seam_bypassed=%d" % cov["counters"]["seam_bypassed"])
        print("%s: %s" % (pid, "all required faults/probes fired" if not missing else "STUCK AT ZERO: " + ", ".join(missing)))
        bad += 1 if missing else 0
    return 1 if bad else 0


if __name__ == "__main__":
    sys.exit(main())
