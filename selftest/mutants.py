"""Sensitivity self-test: every deliberate break under selftest/mutants/ (and every kept seeded change under seeded/*/patch.diff)
must be reported by the quick tier of the check named in its file name / meta.json, be minimised, replay in a fresh process,
and the replay must be silent on the unchanged tree.  Scratch copies live under $TMPDIR and are removed immediately.

usage: selftest/mutants.py [--suite] [name-substring ...]
"""
import glob
import json
import os
import re
import shutil
import subprocess
import sys
import tempfile

HERE = os.path.dirname(os.path.dirname(os.path.abspath(__file__)))
REPO = "/repo"
PY = "/venv/bin/python"


def scratch_with(patch):
    d = tempfile.mkdtemp(prefix="verif-mut-", dir=os.environ.get("TMPDIR", "/tmp"))
    shutil.copytree(os.path.join(REPO, "geomdl"), os.path.join(d, "geomdl"), ignore=shutil.ignore_patterns("__pycache__"))
    shutil.copytree(os.path.join(REPO, "tests"), os.path.join(d, "tests"), ignore=shutil.ignore_patterns("__pycache__"))
    r = subprocess.run(["patch", "-p1", "-s", "-d", d, "-i", patch], stdout=subprocess.PIPE, stderr=subprocess.STDOUT)
    if r.returncode != 0:
        shutil.rmtree(d, ignore_errors=True)
        raise RuntimeError("patch does not apply: %s\n%s" % (patch, r.stdout.decode()))
    return d


def run_check(prop, repo, extra=(), timeout=900):
    env = dict(os.environ, VERIF_REPO=repo)
    r = subprocess.run([os.path.join(HERE, "check"), prop, "--no-evidence"] + list(extra), env=env, stdout=subprocess.PIPE,
                       stderr=subprocess.DEVNULL, stdin=subprocess.DEVNULL, timeout=timeout)
    return r.returncode, r.stdout.decode()


NOT_CLAIMED = {}     # seeded changes kept for the record that the checks deliberately do not flag (reason in meta.json)


def main():
    args = [a for a in sys.argv[1:] if not a.startswith("--")]
    with_suite = "--suite" in sys.argv
    items = []
    for p in sorted(glob.glob(os.path.join(HERE, "selftest", "mutants", "*.diff"))):
        items.append((os.path.basename(p)[:-5], [os.path.basename(p).split("-")[0]], p))
    for p in sorted(glob.glob(os.path.join(HERE, "seeded", "*", "patch.diff"))):
        meta = json.load(open(os.path.join(os.path.dirname(p), "meta.json")))
        items.append(("seeded/" + os.path.basename(os.path.dirname(p)), meta.get("detected_by") or [meta["property"]], p))
        if meta.get("not_claimed"):
            NOT_CLAIMED[items[-1][0]] = meta["not_claimed"]
    if args:
        items = [it for it in items if any(a in it[0] for a in args)]
    failed = 0
    for name, props, patch in items:
        d = scratch_with(patch)
        try:
            suite = ""
            if with_suite:
                r = subprocess.run([PY, "-m", "pytest", "-q", "-x", "-p", "no:cacheprovider", "--timeout=900", "tests",
                                    "--ignore=tests/test_visualization.py"], cwd=d, env=dict(os.environ, PYTHONPATH=d),
                                   stdout=subprocess.PIPE, stderr=subprocess.STDOUT)
                suite = " suite:%s" % ("pass" if r.returncode == 0 else "FAIL")
            caught = []
            for prop in props:
                rc, out = run_check(prop, d, ["--tier", "quick"])
                m = re.search(r"^VIOLATION property=(\S+) replay=(\S+)", out, re.M)
                if rc == 1 and m:
                    rp = m.group(2)
                    info = re.search(r"class=(\S+) step=\S+ runs=(\d+) ops (\d+)->(\d+)", out)
                    rc2, out2 = run_check(prop, d, ["--replay", rp])
                    rc3, out3 = run_check(prop, REPO, ["--replay", rp])
                    same = "same_signature=True" in out2
                    ok = rc2 == 1 and same and rc3 == 0
                    caught.append("%s:%s(runs=%s,ops %s->%s)%s" % (prop, info.group(1) if info else "?", info.group(2) if info else "?",
                                                                     info.group(3) if info else "?", info.group(4) if info else "?",
                                                                     "" if ok else " REPLAY-PROBLEM(rc2=%d same=%s clean_rc=%d)" % (rc2, same, rc3)))
                    if not ok:
                        failed += 1
                elif name in NOT_CLAIMED:
                    caught.append("%s:NOT-CLAIMED(quiet,rc=%d)" % (prop, rc))
                else:
                    caught.append("%s:MISSED(rc=%d)" % (prop, rc))
                    failed += 1
            print("%-55s %s%s" % (name, " ".join(caught), suite), flush=True)
            if "--record" in sys.argv and name.startswith("seeded/"):
                mp = os.path.join(os.path.dirname(patch), "meta.json")
                meta = json.load(open(mp))
                meta["detection"] = {"quick_tier": caught, "all_caught": not any("MISSED" in c or "PROBLEM" in c or "NOT-CLAIMED" in c for c in caught)}
                json.dump(meta, open(mp, "w"), indent=1)
        finally:
            shutil.rmtree(d, ignore_errors=True)
    return 1 if failed else 0


if __name__ == "__main__":
    sys.exit(main())
