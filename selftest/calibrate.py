"""Stub-fidelity self-tests (DESIGN §2.2 / §2.3).

1. SimPool vs the real multiprocessing.Pool: pooled workloads (container tessellation, voxelisation) give the same
   observables through the real pool and through SimPool under several seeds / chunk knobs.
2. SimDisk vs real files: fault-free exports write byte-identical content to SimDisk and to a real scratch directory
   (outside /repo and /verif, removed afterwards), and the real files import back to the same definitions.
"""
import json
import os
import shutil
import subprocess
import sys
import tempfile

HERE = os.path.dirname(os.path.dirname(os.path.abspath(__file__)))
sys.path.insert(0, HERE)

CHILD = r'''
import sys, json, os
sys.path.insert(0, %(here)r)
from sim import core, runner
core.setup_import_path()
from sim import shapes
from machines import config as m
mode, run = sys.argv[1], int(sys.argv[2])
script = runner.make_script("machines.config", "C17", 4242, run, "quick", [])
cfg = dict(m.BASELINE, num_procs=3, sched=int(sys.argv[3]), chunk=sys.argv[4])
if mode == "real":
    cfg["real_pool"] = True
    shapes.G.load()
else:
    m.prepare()
out, info = m.execute_workload(script, cfg)
print(json.dumps({"obs": core.canon(out), "pooled": info["pooled_calls"], "sigs": info["pool"]["signatures"]}))
'''


def pool_calibration():
    code = CHILD % {"here": HERE}
    env = dict(os.environ, PYTHONHASHSEED="0", PYTHONDONTWRITEBYTECODE="1")
    checked = pooled = 0
    sigs = set()
    for run in range(0, 400):
        if pooled >= 12:
            break
        def call(mode, sched, chunk):
            r = subprocess.run([sys.executable, "-c", code, mode, str(run), str(sched), chunk], env=env, stdout=subprocess.PIPE,
                               stderr=subprocess.PIPE, stdin=subprocess.DEVNULL, timeout=300)
            if r.returncode != 0:
                raise RuntimeError(r.stderr.decode()[-2000:])
            return json.loads(r.stdout.decode().strip().splitlines()[-1])
        real = call("real", 0, "default")
        if not real["pooled"]:
            continue
        pooled += 1
        for sched, chunk in ((1, "default"), (2, "one"), (3, "all"), (4, "default"), (5, "one")):
            sim = call("sim", sched, chunk)
            checked += 1
            for s in sim["sigs"]:
                sigs.add(s)
            if sim["obs"] != real["obs"]:
                bad = next(i for i, (a, b) in enumerate(zip(sim["obs"], real["obs"])) if a != b)
                print("POOL CALIBRATION MISMATCH run=%d sched=%d chunk=%s at op %d" % (run, sched, chunk, bad))
                return 1
    print("pool calibration ok: %d pooled workloads x 5 SimPool schedules equal the real multiprocessing.Pool (%d distinct schedule signatures)" % (pooled, len(sigs)))
    return 0 if pooled >= 5 else 1


def disk_calibration():
    from sim import core
    core.setup_import_path()
    from sim import shapes, disk as simdisk
    from sim.core import Rng
    g = shapes.G.load()
    import geomdl._exchange as ex
    import geomdl.exchange as exchange
    real_open, real_os = open, os
    tmp = tempfile.mkdtemp(prefix="verif-calib-", dir=os.environ.get("TMPDIR", "/tmp"))
    n = 0
    try:
        for i in range(40):
            rng = Rng("calib", i)
            kind = rng.pick(["curve", "surface", "volume"])
            spec = shapes.gen_shape(rng, kind=kind, dim=3, max_size=5)
            obj = shapes.build(spec)
            fmts = ["json", "txt"] + (["smesh", "txt2d"] if kind == "surface" else []) + (["vmesh"] if kind == "volume" else []) + \
                   (["csv"] if kind != "volume" else [])
            for fmt in fmts:
                d = simdisk.SimDisk(i, rng.pick([64, 512, 8192]))
                def export(path):
                    if fmt == "json":
                        exchange.export_json(obj, path)
                    elif fmt == "smesh":
                        exchange.export_smesh(obj, path)
                    elif fmt == "vmesh":
                        exchange.export_vmesh(obj, path)
                    elif fmt == "txt":
                        exchange.export_txt(obj, path)
                    elif fmt == "txt2d":
                        exchange.export_txt(obj, path, two_dimensional=True)
                    else:
                        exchange.export_csv(obj, path, point_type="ctrlpts")
                simdisk.install(d)
                export("/data/f." + fmt)
                sim_bytes = d.read_bytes("/data/f." + fmt)
                ex.open = real_open
                exchange.os = real_os
                rp = os.path.join(tmp, "f%d.%s" % (i, fmt))
                export(rp)
                with real_open(rp, "rb") as fp:
                    real_bytes = fp.read()
                if sim_bytes != real_bytes:
                    print("DISK CALIBRATION MISMATCH: %s export of a %s differs between SimDisk and a real file" % (fmt, kind))
                    return 1
                n += 1
    finally:
        shutil.rmtree(tmp, ignore_errors=True)
    print("disk calibration ok: %d fault-free exports byte-identical on SimDisk and on real files" % n)
    return 0


if __name__ == "__main__":
    rc = disk_calibration()
    rc |= pool_calibration()
    sys.exit(rc)
