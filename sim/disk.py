"""SimDisk - an in-memory file system with fault injection (DESIGN §2.3).

Two layers per file: the *on-disk content* and the user-space buffer of each open handle. write() appends
to the handle's buffer; the buffer spills to the disk content when it exceeds the run's buffer-size knob and
on flush/close. A simulated process crash (SimCrash, a BaseException) abandons all handles without
committing their buffers, so a file keeps only its spilled prefix: empty after open('w'), torn later,
complete if the crash lands after close.

Faults (armed per operation by the machine, placed *inside* export/import operations):
  open_fails   - the n-th open() of the operation raises OSError(errno)
  write_fails  - the n-th write() raises OSError(EIO/ENOSPC) after spilling a seeded prefix of the buffer
  close_fails  - the n-th close() raises OSError (deferred write error); the buffer is NOT committed
  read_fails   - the n-th read()/iteration raises OSError(EIO)
  crash        - the n-th file-system call of any kind raises SimCrash
  listdir_shuffled - directory listings come back in a seeded permutation (always on, it is legal behaviour)
"""
import errno as _errno
import posixpath
import weakref

from .core import SimCrash, Rng


class SimFile:
    def __init__(self, disk, path, mode):
        self.disk = disk
        self.path = path
        self.mode = mode
        self.binary = "b" in mode
        self.writing = any(c in mode for c in "wa+x")
        self.reading = "r" in mode or "+" in mode
        self.buf = bytearray()
        self.pos = 0
        self.closed = False
        self._lines = None

    # -- context manager
    def __enter__(self):
        return self

    def __exit__(self, et, ev, tb):
        if et is not None and issubclass(et, SimCrash):
            return False          # the process is dead: nothing runs, nothing is flushed
        self.close()
        return False

    # -- helpers
    def _spill(self, upto=None):
        data = bytes(self.buf if upto is None else self.buf[:upto])
        self.disk.files[self.path] += data
        del self.buf[:len(data)]

    def _check(self):
        if self.closed:
            raise ValueError("I/O operation on closed file.")

    # -- writing
    def write(self, s):
        self._check()
        if not self.writing:
            raise OSError(_errno.EBADF, "not writable")
        data = s if self.binary else s.encode("utf-8")
        if not isinstance(data, (bytes, bytearray)):
            raise TypeError("a bytes-like object is required, not '%s'" % type(s).__name__)
        self.buf += data
        f = self.disk._event("write")
        if f is not None:
            # a seeded prefix of what is buffered reaches the disk, then the error surfaces
            cut = self.disk.rng.randint(0, len(self.buf))
            self._spill(cut)
            self.buf = bytearray()
            raise OSError(f.get("errno", _errno.EIO), "simulated write error", self.path)
        if len(self.buf) > self.disk.bufsize:
            keep = len(self.buf) % self.disk.bufsize if self.disk.bufsize else 0
            self._spill(len(self.buf) - keep)
        return len(s)

    def truncate(self, size=None):
        self._check()
        self.disk._event("other")
        if size is None:
            size = len(self.disk.files[self.path]) + len(self.buf)
        self._spill()
        del self.disk.files[self.path][size:]
        return size

    def flush(self):
        self._check()
        f = self.disk._event("write")
        if f is not None:
            self.buf = bytearray()
            raise OSError(f.get("errno", _errno.EIO), "simulated write error (flush)", self.path)
        if self.writing:
            self._spill()

    def close(self):
        if self.closed:
            return
        f = self.disk._event("close")
        self.closed = True
        self.disk.handles.discard(self)
        if f is not None:
            self.buf = bytearray()
            raise OSError(f.get("errno", _errno.EIO), "simulated write error surfacing at close", self.path)
        if self.writing:
            self._spill()

    def __del__(self):
        # CPython closes a file object that goes out of scope; an error raised by that implicit close / flush is swallowed by the
        # interpreter ("Exception ignored in ..."), the caller never sees it. A simulated crash cannot be raised from here:
        # it fires at the next file-system call instead.
        try:
            if not self.closed and not self.disk.dead:
                f = self.disk._event("close", allow_crash=False)
                self.closed = True
                if f is None and self.writing:
                    self._spill()
                else:
                    self.buf = bytearray()
                if self.disk.ctx is not None:
                    self.disk.ctx.probe("file_closed_implicitly_by_the_interpreter")
        except BaseException:
            pass

    # -- reading
    def _content(self):
        return bytes(self.disk.files[self.path])

    def read(self, n=-1):
        self._check()
        if not self.reading:
            raise OSError(_errno.EBADF, "not readable")
        f = self.disk._event("read")
        if f is not None:
            raise OSError(f.get("errno", _errno.EIO), "simulated read error", self.path)
        data = self._content()[self.pos:] if n is None or n < 0 else self._content()[self.pos:self.pos + n]
        self.pos += len(data)
        return data if self.binary else data.decode("utf-8")

    def readline(self):
        self._check()
        f = self.disk._event("read")
        if f is not None:
            raise OSError(f.get("errno", _errno.EIO), "simulated read error", self.path)
        c = self._content()
        i = c.find(b"\n", self.pos)
        end = len(c) if i < 0 else i + 1
        data = c[self.pos:end]
        self.pos = end
        return data if self.binary else data.decode("utf-8")

    def readlines(self):
        out = []
        while True:
            ln = self.readline()
            if not ln:
                return out
            out.append(ln)

    def __iter__(self):
        return self

    def __next__(self):
        ln = self.readline()
        if not ln:
            raise StopIteration
        return ln

    def seek(self, pos, whence=0):
        self._check()
        if whence == 0:
            self.pos = pos
        elif whence == 1:
            self.pos += pos
        else:
            self.pos = len(self._content()) + pos
        return self.pos

    def tell(self):
        return self.pos


class _Path:
    def __init__(self, disk):
        self._d = disk
        self.join = posixpath.join
        self.splitext = posixpath.splitext
        self.basename = posixpath.basename
        self.dirname = posixpath.dirname
        self.sep = "/"

    def abspath(self, p):
        return self._d._norm(p)

    def normpath(self, p):
        return posixpath.normpath(p)

    def getsize(self, p):
        self._d._event("stat")
        return len(self._d.files[self._d._norm(p)])

    def isfile(self, p):
        self._d._event("stat")
        return self._d._norm(p) in self._d.files

    def isdir(self, p):
        self._d._event("stat")
        return self._d._norm(p) in self._d.dirs

    def exists(self, p):
        self._d._event("stat")
        p = self._d._norm(p)
        return p in self._d.files or p in self._d.dirs


class OsShim:
    """What geomdl.exchange needs from the os module."""

    def __init__(self, disk):
        self._d = disk
        self.path = _Path(disk)
        self.sep = "/"
        self.linesep = "\n"

    def listdir(self, p):
        return self._d.listdir(p)

    def remove(self, p):
        self._d._event("other")
        p = self._d._norm(p)
        if p not in self._d.files:
            raise FileNotFoundError(_errno.ENOENT, "No such file or directory", p)
        del self._d.files[p]

    unlink = remove

    def rename(self, a, b):
        self._d._event("other")
        a, b = self._d._norm(a), self._d._norm(b)
        if a not in self._d.files:
            raise FileNotFoundError(_errno.ENOENT, "No such file or directory", a)
        self._d.files[b] = self._d.files.pop(a)

    replace = rename

    def makedirs(self, p, exist_ok=False, **kw):
        self._d.mkdir(p)

    mkdir = makedirs

    def __getattr__(self, name):
        # anything else (os.getcwd, os.environ, ...) falls through to the real module and is counted
        import os
        self._d.bypass += 1
        return getattr(os, name)


class SimDisk:
    def __init__(self, seed, bufsize=512):
        self.files = {}
        self.dirs = {"/", "/data"}
        self.handles = weakref.WeakSet()
        self.dead = False
        self.bufsize = bufsize
        self.rng = Rng(seed, "disk")
        self.armed = []
        self.counts = {}
        self.calls = 0
        self.fired = []
        self.bypass = 0
        self.ctx = None
        self.os = OsShim(self)

    # ---- fault plumbing
    def arm(self, faults):
        self.armed = [dict(f) for f in faults]
        self.counts = {}
        self.calls = 0
        self.fired = []

    def disarm(self):
        self.armed = []

    def _event(self, kind, allow_crash=True):
        """Count a file-system call; return the fault spec that fires on it (or None); crash raises."""
        self.calls += 1
        self.counts[kind] = self.counts.get(kind, 0) + 1
        for f in self.armed:
            if f.get("done"):
                continue
            if f["kind"] == "crash" and f["nth"] <= self.calls and allow_crash:
                f["done"] = True
                self.fired.append("crash")
                if self.ctx is not None:
                    self.ctx.fault("crash")
                self.crash()
                raise SimCrash("simulated process crash at file-system call #%d (%s)" % (self.calls, kind))
            want = {"open_fails": "open", "write_fails": "write", "close_fails": "close", "read_fails": "read"}.get(f["kind"])
            if want == kind and f["nth"] == self.counts[kind]:
                f["done"] = True
                self.fired.append(f["kind"])
                if self.ctx is not None:
                    self.ctx.fault(f["kind"])
                return f
        return None

    def crash(self):
        """The process dies: every open handle is abandoned with its buffer."""
        for h in list(self.handles):
            h.closed = True
            h.buf = bytearray()
        self.handles = weakref.WeakSet()

    # ---- file API
    def _norm(self, p):
        p = str(p)
        if not p.startswith("/"):
            p = "/data/" + p
        return posixpath.normpath(p)

    def open(self, file, mode="r", *args, **kwargs):
        path = self._norm(file)
        f = self._event("open")
        if f is not None:
            raise OSError(f.get("errno", _errno.EACCES), "simulated open error", path)
        if "r" in mode and "+" not in mode:
            if path in self.dirs:
                raise IsADirectoryError(_errno.EISDIR, "Is a directory", path)
            if path not in self.files:
                raise FileNotFoundError(_errno.ENOENT, "No such file or directory", path)
        else:
            if path in self.dirs:
                raise IsADirectoryError(_errno.EISDIR, "Is a directory", path)
            if posixpath.dirname(path) not in self.dirs:
                raise FileNotFoundError(_errno.ENOENT, "No such file or directory", path)
            if "w" in mode:
                self.files[path] = bytearray()      # O_TRUNC takes effect at open
            elif "x" in mode:
                if path in self.files:
                    raise FileExistsError(_errno.EEXIST, "File exists", path)
                self.files[path] = bytearray()
            else:
                self.files.setdefault(path, bytearray())
        h = SimFile(self, path, mode)
        if "a" in mode:
            h.pos = len(self.files[path])
        self.handles.add(h)
        return h

    def mkdir(self, p):
        self.dirs.add(self._norm(p))

    def listdir(self, p):
        self._event("stat")
        p = self._norm(p)
        if p not in self.dirs:
            raise FileNotFoundError(_errno.ENOENT, "No such file or directory", p)
        names = sorted({posixpath.basename(f) for f in self.files if posixpath.dirname(f) == p} |
                       {posixpath.basename(d) for d in self.dirs if posixpath.dirname(d) == p and d != p})
        self.rng.shuffle(names)     # directory order is file-system dependent
        if self.ctx is not None:
            self.ctx.probe("listdir_shuffled")
        return names

    def read_bytes(self, p):
        """Oracle-side access (not an API call, never faulted)."""
        return bytes(self.files[self._norm(p)])

    def exists(self, p):
        return self._norm(p) in self.files


def install(disk):
    """Point every file-touching geomdl module at the simulated disk (module globals shadow builtins)."""
    import sys
    import geomdl._exchange as ex
    import geomdl.exchange as exchange
    import geomdl.compatibility as compat
    import geomdl.voxelize as vox
    for mod in (ex, exchange, compat, vox):
        mod.open = disk.open
    # every loaded geomdl module that holds a reference to the os module gets the shim (a change may start using
    # os.path / os.listdir / os.remove in a module that did not before)
    for name, mod in list(sys.modules.items()):
        if mod is not None and (name == "geomdl" or name.startswith("geomdl.")):
            if getattr(mod, "os", None) is not None:
                mod.os = disk.os
            if "open" in getattr(mod, "__dict__", {}) or name in ("geomdl.exchange_vtk",):
                mod.open = disk.open
