"""Entry stub: keeps `sim.main` from being loaded twice (python -m would)."""
import sys
from sim.main import main
sys.exit(main())
