"""Deterministic simulation with fault injection for orbingol/NURBS-Python (geomdl).

Layout: core (seeding, event log, violations), runner (zygotes, forked run children, batch,
evidence), shrink (ddmin), pool (SimPool), disk (SimDisk), refmodel (oracles), findings.
"""
