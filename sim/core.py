"""Seeding, the per-run context (event log, probes, fault counters) and violation plumbing.

Nothing in this module reads a clock or draws from a PRNG on a logging path.
"""
import hashlib
import json
import math
import os
import random
import sys

REPO = os.environ.get("VERIF_REPO", "/repo")
VERIF = os.path.dirname(os.path.dirname(os.path.abspath(__file__)))
DEFAULT_SEED = 20261002


def h64(*parts):
    """Stable 64-bit hash of a tuple of simple values (str/int/None/float)."""
    m = hashlib.sha256(repr(parts).encode("utf-8")).digest()
    return int.from_bytes(m[:8], "big")


class Rng(random.Random):
    """One independent stream per (run seed, stream name)."""

    def __init__(self, *parts):
        super().__init__(h64(*parts))

    def pick(self, seq):
        return seq[self.randrange(len(seq))]

    def chance(self, p):
        return self.random() < p

    def weighted(self, pairs):
        """pairs: list of (item, weight); deterministic order."""
        tot = sum(w for _, w in pairs)
        x = self.random() * tot
        acc = 0.0
        for it, w in pairs:
            acc += w
            if x < acc:
                return it
        return pairs[-1][0]

    def dyadic(self, lo, hi, den):
        """k/den with lo <= k/den <= hi (exact binary floats when den is a power of two)."""
        return self.randint(int(math.ceil(lo * den)), int(math.floor(hi * den))) / float(den)


class Violation(Exception):
    """A property violation observed by an oracle. sig is the narrow signature used for known findings."""

    def __init__(self, cls, msg, **sig):
        super().__init__(msg)
        self.cls = cls
        self.msg = msg
        self.sig = dict(sig)
        self.sig["class"] = cls


class Precondition(Exception):
    """The run left the space the property speaks about (counted, never a violation)."""


class SimCrash(BaseException):
    """The simulated process dies here (unwinds through all library frames)."""


def canon(x, nd=12):
    """Canonical JSON-able form for digests: floats rounded to nd significant digits."""
    if isinstance(x, float):
        if x != x or x in (float("inf"), float("-inf")):
            return repr(x)
        return float("%.*g" % (nd, x)) + 0.0
    if isinstance(x, (list, tuple)):
        return [canon(v, nd) for v in x]
    if isinstance(x, dict):
        return {str(k): canon(v, nd) for k, v in x.items()}
    if isinstance(x, (int, str, bool)) or x is None:
        return x
    return repr(type(x).__name__)


def digest(x):
    return hashlib.sha256(json.dumps(canon(x), sort_keys=True).encode()).hexdigest()[:16]


class Ctx:
    """Per-run recorder. Everything that must replay goes through log()."""

    def __init__(self, script):
        self.script = script
        self._h = hashlib.sha256()
        self.nlog = 0
        self.step = -1
        self.probes = {}
        self.faults = {}
        self.states = []
        self._state_seen = set()
        self.nontrivial = False
        self.sim_time = 0.0
        self.ops_executed = 0
        self.ops_skipped = 0
        self.trace = [] if script.get("trace") else None
        self.extra = {}

    def log(self, *items):
        s = json.dumps(canon(items), sort_keys=True)
        self._h.update(s.encode())
        self._h.update(b"\n")
        self.nlog += 1
        if self.trace is not None:
            self.trace.append(s if len(s) < 400 else s[:400] + "...")

    def probe(self, name, n=1):
        self.probes[name] = self.probes.get(name, 0) + n

    def fault(self, kind, n=1):
        self.faults[kind] = self.faults.get(kind, 0) + n
        self.log("fault", kind)

    def state(self, sig):
        if sig not in self._state_seen:
            self._state_seen.add(sig)
            self.states.append(sig)

    def fail(self, cls, msg, **sig):
        raise Violation(cls, msg, **sig)

    def digest(self):
        return self._h.hexdigest()[:24]


# ---------------------------------------------------------------------------------------------
# numeric comparison helpers shared by the oracles


def flat(x):
    """Flatten nested lists/tuples of numbers into a list of floats."""
    out = []
    st = [x]
    while st:
        v = st.pop()
        if isinstance(v, (list, tuple)):
            st.extend(reversed(v))
        else:
            out.append(v)
    return out


def scale_of(*xs):
    m = 1.0
    for x in xs:
        for v in flat(x):
            try:
                a = abs(float(v))
            except (TypeError, ValueError):
                continue
            if a > m and a == a and a != float("inf"):
                m = a
    return m


def close(a, b, tol=1e-9, scale=None):
    """Structural closeness of nested numeric lists. Returns (ok, description)."""
    fa = flat(a)
    fb = flat(b)
    if len(fa) != len(fb):
        return False, "length %d != %d" % (len(fa), len(fb))
    if scale is None:
        scale = scale_of(fa, fb)
    worst = 0.0
    wi = -1
    for i, (x, y) in enumerate(zip(fa, fb)):
        try:
            d = abs(float(x) - float(y))
        except (TypeError, ValueError):
            if x != y:
                return False, "non-numeric mismatch at %d: %r vs %r" % (i, x, y)
            continue
        if d != d:
            if not (x != x and y != y):
                return False, "nan at %d" % i
            continue
        if d > worst:
            worst = d
            wi = i
    if worst > tol * scale:
        return False, "max diff %.3g at flat index %d (%r vs %r), tol %.3g" % (
            worst, wi, fa[wi], fb[wi], tol * scale)
    return True, ""


def shape_of(x):
    """Nested list shape signature, e.g. [3, 4, 2]; ragged -> 'ragged'."""
    if not isinstance(x, (list, tuple)):
        return []
    if not x:
        return [0]
    subs = [shape_of(v) for v in x]
    if any(s != subs[0] for s in subs):
        return [len(x), "ragged"]
    return [len(x)] + subs[0]


def setup_import_path():
    """Import geomdl from the working tree under test, never from site-packages."""
    if REPO in sys.path:
        sys.path.remove(REPO)
    sys.path.insert(0, REPO)
