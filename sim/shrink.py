"""Minimisation: delta debugging over the operation list, then per-op fault lists, then
machine-specific simplifications. Every candidate runs in a fresh forked child; a candidate is
accepted only if the same violation signature persists."""
import copy
import json
import time


def _same(res, sig):
    v = res.get("violation")
    return v is not None and json.dumps(v["sig"], sort_keys=True) == json.dumps(sig, sort_keys=True)


def minimise(execute, machine, script, sig, budget_s=60.0, log=None):
    t0 = time.monotonic()
    tried = [0]

    def left():
        return budget_s - (time.monotonic() - t0)

    def test(cand):
        tried[0] += 1
        return _same(execute(cand), sig)

    best = copy.deepcopy(script)

    # 1. ddmin over ops
    ops = best.get("ops", [])
    n = 2
    while len(ops) >= 2 and left() > 0:
        chunk = max(1, len(ops) // n)
        reduced = False
        for start in range(0, len(ops), chunk):
            if left() <= 0:
                break
            cand_ops = ops[:start] + ops[start + chunk:]
            if not cand_ops:
                continue
            cand = dict(best, ops=cand_ops)
            if test(cand):
                ops = cand_ops
                best = cand
                n = max(n - 1, 2)
                reduced = True
                break
        if not reduced:
            if chunk == 1:
                break
            n = min(len(ops), n * 2)

    # 2. drop faults attached to ops, one at a time
    changed = True
    while changed and left() > 0:
        changed = False
        for i, op in enumerate(best.get("ops", [])):
            fl = op.get("faults") or []
            for j in range(len(fl)):
                cand = copy.deepcopy(best)
                del cand["ops"][i]["faults"][j]
                if test(cand):
                    best = cand
                    changed = True
                    break
            if changed or left() <= 0:
                break

    # 3. machine-specific simplification passes (each yields candidate scripts)
    simp = getattr(machine, "simplify", None)
    if simp is not None:
        progress = True
        rounds = 0
        while progress and left() > 0 and rounds < 8:
            progress = False
            rounds += 1
            for cand in simp(copy.deepcopy(best)):
                if left() <= 0:
                    break
                if test(cand):
                    best = cand
                    progress = True
                    break
    if log:
        log("minimised %d -> %d ops in %d candidate runs" % (len(script.get("ops", [])), len(best.get("ops", [])), tried[0]))
    return best, tried[0]
