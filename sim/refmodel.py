"""Reference models (oracles). No code is shared with geomdl.

R1  spline model: Cox-de Boor *definition* (recursive, half-open spans, left limit at the domain
    end), tensor product, rational division.  Works over Fraction (exact) or float.
R3  exact linear algebra over Fraction.
"""
from fractions import Fraction as F


def fr(x):
    """Exact conversion of a float/int to Fraction."""
    if isinstance(x, F):
        return x
    if isinstance(x, int):
        return F(x)
    return F(float(x))


def frm(m):
    return [[fr(v) for v in row] for row in m]


# ---------------------------------------------------------------------------------------------
# R3: exact linear algebra

def mat_mul(a, b):
    n, p, m = len(a), len(b), len(b[0])
    return [[sum(a[i][k] * b[k][j] for k in range(p)) for j in range(m)] for i in range(n)]


def det(a):
    a = [row[:] for row in a]
    n = len(a)
    d = F(1)
    for c in range(n):
        piv = None
        for r in range(c, n):
            if a[r][c] != 0:
                piv = r
                break
        if piv is None:
            return F(0)
        if piv != c:
            a[c], a[piv] = a[piv], a[c]
            d = -d
        d *= a[c][c]
        for r in range(c + 1, n):
            if a[r][c] != 0:
                f = a[r][c] / a[c][c]
                a[r] = [x - f * y for x, y in zip(a[r], a[c])]
    return d


def leading_minors_nonzero(a):
    """True iff every leading principal minor is nonzero (plain LU exists and is unique)."""
    a = [row[:] for row in a]
    n = len(a)
    for c in range(n):
        if a[c][c] == 0:
            return False
        for r in range(c + 1, n):
            if a[r][c] != 0:
                f = a[r][c] / a[c][c]
                a[r] = [x - f * y for x, y in zip(a[r], a[c])]
    return True


def min_abs_pivot(a):
    """Smallest |pivot| of plain (unpivoted) elimination, or 0 when it breaks down."""
    a = [row[:] for row in a]
    n = len(a)
    m = None
    for c in range(n):
        if a[c][c] == 0:
            return F(0)
        m = abs(a[c][c]) if m is None else min(m, abs(a[c][c]))
        for r in range(c + 1, n):
            if a[r][c] != 0:
                f = a[r][c] / a[c][c]
                a[r] = [x - f * y for x, y in zip(a[r], a[c])]
    return m


def static_pivot(a):
    """The *documented* pivoting rule of linalg.matrix_pivot: for each column j pick the row >= j with the
    largest |entry| in the (so far row-swapped, not eliminated) matrix, first maximum wins. Returns the
    row order as a permutation list. Used only by the generator to classify inputs."""
    a = [row[:] for row in a]
    n = len(a)
    order = list(range(n))
    for j in range(n):
        row = j
        amax = F(0)
        for i in range(j, n):
            if abs(a[i][j]) > amax:
                amax = abs(a[i][j])
                row = i
        if row != j:
            a[j], a[row] = a[row], a[j]
            order[j], order[row] = order[row], order[j]
    return order, a


def is_permutation(p):
    n = len(p)
    perm = []
    for row in p:
        if len(row) != n:
            return None
        ones = [j for j, v in enumerate(row) if v == 1]
        zeros = [j for j, v in enumerate(row) if v == 0]
        if len(ones) != 1 or len(zeros) != n - 1:
            return None
        perm.append(ones[0])
    if sorted(perm) != list(range(n)):
        return None
    return perm


def perm_sign(perm):
    perm = list(perm)
    s = 1
    for i in range(len(perm)):
        while perm[i] != i:
            j = perm[i]
            perm[i], perm[j] = perm[j], perm[i]
            s = -s
    return s


def comb(k, i):
    if i < 0 or i > k:
        return 0
    r = 1
    for t in range(1, i + 1):
        r = r * (k - i + t) // t
    return r


# ---------------------------------------------------------------------------------------------
# R1: spline model

def basis_all(p, U, u, n_ctrl, num=float):
    """N_{i,p}(u) for i in 0..n_ctrl-1 by the recursive definition.

    Half-open spans [U_i, U_{i+1}); at the domain end U[n_ctrl] the left limit is taken (the last non-empty
    span whose right end is the domain end is treated as closed). 0/0 := 0."""
    m = len(U) - 1
    U = [num(x) for x in U]
    u = num(u)
    end = U[n_ctrl]
    N = [num(0)] * m
    if u == end:
        # last i with U[i] < U[i+1] == ... <= end and U[i+1] >= u: left limit
        k = None
        for i in range(m - 1, -1, -1):
            if U[i] < u <= U[i + 1]:
                k = i
                break
        if k is None:
            k = 0
        N[k] = num(1)
    else:
        for i in range(m):
            if U[i] <= u < U[i + 1]:
                N[i] = num(1)
                break
    for k in range(1, p + 1):
        M = [num(0)] * (m - k)
        for i in range(m - k):
            v = num(0)
            d1 = U[i + k] - U[i]
            if d1 != 0 and N[i] != 0:
                v += (u - U[i]) / d1 * N[i]
            d2 = U[i + k + 1] - U[i + 1]
            if d2 != 0 and N[i + 1] != 0:
                v += (U[i + k + 1] - u) / d2 * N[i + 1]
            M[i] = v
        N = M
    return N[:n_ctrl]


class Spline:
    """A definition snapshot: pdim, rational, degrees, knot vectors, sizes, homogeneous/plain points (flat,
    last direction fastest among the stored order given by `order`)."""

    def __init__(self, degrees, knots, sizes, ctrlpts, rational, num=float):
        self.pdim = len(degrees)
        self.degrees = list(degrees)
        self.knots = [[num(x) for x in kv] for kv in knots]
        self.sizes = list(sizes)
        self.rational = rational
        self.num = num
        self.P = [[num(c) for c in pt] for pt in ctrlpts]
        tot = 1
        for s in self.sizes:
            tot *= s
        if len(self.P) != tot:
            raise ValueError("control point count %d != product of sizes %r" % (len(self.P), self.sizes))

    def index(self, idx):
        """geomdl flat layout: curve i; surface v + u*size_v; volume v + u*size_v + w*size_u*size_v."""
        if self.pdim == 1:
            return idx[0]
        if self.pdim == 2:
            return idx[1] + idx[0] * self.sizes[1]
        return idx[1] + idx[0] * self.sizes[1] + idx[2] * self.sizes[0] * self.sizes[1]

    def domain(self):
        return [(self.knots[d][self.degrees[d]], self.knots[d][self.sizes[d]]) for d in range(self.pdim)]

    def eval(self, params):
        num = self.num
        Ns = []
        for d in range(self.pdim):
            N = basis_all(self.degrees[d], self.knots[d], params[d], self.sizes[d], num)
            Ns.append([(i, v) for i, v in enumerate(N) if v != 0])
        dim = len(self.P[0])
        acc = [num(0)] * dim
        if self.pdim == 1:
            for i, a in Ns[0]:
                pt = self.P[i]
                for c in range(dim):
                    acc[c] += a * pt[c]
        elif self.pdim == 2:
            for i, a in Ns[0]:
                for j, b in Ns[1]:
                    ab = a * b
                    pt = self.P[j + i * self.sizes[1]]
                    for c in range(dim):
                        acc[c] += ab * pt[c]
        else:
            for i, a in Ns[0]:
                for j, b in Ns[1]:
                    for k, c3 in Ns[2]:
                        abc = a * b * c3
                        pt = self.P[j + i * self.sizes[1] + k * self.sizes[0] * self.sizes[1]]
                        for c in range(dim):
                            acc[c] += abc * pt[c]
        if self.rational:
            w = acc[-1]
            return [x / w for x in acc[:-1]]
        return acc

    def eval_float(self, params):
        return [float(x) for x in self.eval(params)]


def distinct_knots(kv, lo, hi):
    out = []
    for k in kv:
        if lo <= k <= hi and (not out or k != out[-1]):
            out.append(k)
    return out


def sample_params_1d(kv, degree, n_ctrl, per_span=2):
    """Knots inside the domain, both ends, and per_span interior points of every non-empty span (dyadic)."""
    lo, hi = kv[degree], kv[n_ctrl]
    ks = distinct_knots(kv, lo, hi)
    out = []
    for a, b in zip(ks[:-1], ks[1:]):
        out.append(a)
        for t in range(1, per_span + 1):
            out.append(a + (b - a) * t / (per_span + 1.0))
    out.append(hi)
    return out
