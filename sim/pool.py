"""SimPool - a deterministic stand-in for multiprocessing.Pool (DESIGN §2.2).

Real code runs in real, isolated, forked worker processes (arguments and results cross a pickle
boundary, worker-side mutations never reach the parent); only *who runs which chunk when* is simulated:
a discrete-event schedule drawn from a seeded PRNG decides which idle worker takes the next chunk, how long
each item takes in simulated time, hence the completion order (which exception wins, imap_unordered order).
Exactly one worker is released for exactly one item at a time and the parent blocks until it answers, so
the execution is sequential and repeatable.  Nothing sleeps; simulated time jumps from event to event.

Semantics follow CPython 3.12 multiprocessing.pool: default chunking divmod(len, 4*n), a chunk aborts at its
first failing item, map waits for all chunks and raises the failure that *completed first*, results of
un-awaited async calls are lost at terminate().
"""
import heapq
import os
import pickle
import struct
import sys
import traceback
from multiprocessing.reduction import ForkingPickler

from .core import Rng

# ---- per-run configuration installed by the machine (module globals: one run per process)
CONFIG = {"seed": 0, "chunk_knob": "default", "faults": [], "ctx": None}
STATS = {"pools": 0, "map_calls": 0, "items": 0, "chunks": 0, "sim_time": 0.0, "signatures": [], "faults_fired": {},
         "out_of_order_completions": 0}


def configure(seed, chunk_knob="default", faults=None, ctx=None):
    CONFIG.update(seed=seed, chunk_knob=chunk_knob, faults=list(faults or []), ctx=ctx)
    STATS.update(pools=0, map_calls=0, items=0, chunks=0, sim_time=0.0, signatures=[], faults_fired={},
                 out_of_order_completions=0)


class InjectedWorkerFault(MemoryError):
    """Raised inside a worker by the simulator (models MemoryError/OSError in a child)."""


def _write_msg(fd, data):
    os.write(fd, struct.pack("<I", len(data)))
    off = 0
    while off < len(data):
        off += os.write(fd, data[off:off + 65536])


def _read_exact(fd, n):
    buf = b""
    while len(buf) < n:
        ch = os.read(fd, n - len(buf))
        if not ch:
            raise EOFError
        buf += ch
    return buf


def _read_msg(fd):
    (n,) = struct.unpack("<I", _read_exact(fd, 4))
    return _read_exact(fd, n)


def _worker_main(rfd, wfd, initializer, initargs):
    try:
        if initializer is not None:
            initializer(*initargs)
        while True:
            try:
                data = _read_msg(rfd)
            except EOFError:
                break
            func, args, kwds, fault = pickle.loads(data)
            try:
                if fault == "before":
                    raise InjectedWorkerFault("injected worker fault (before the item)")
                val = func(*args, **kwds)
                if fault == "after":
                    raise InjectedWorkerFault("injected worker fault (after the item)")
                out = (True, val)
            except Exception as e:  # noqa
                out = (False, e)
            try:
                payload = ForkingPickler.dumps(out)
            except Exception as e:  # unpicklable result or exception
                payload = ForkingPickler.dumps((False, RuntimeError("SimPool: result not picklable: %r" % (e,))))
            _write_msg(wfd, bytes(payload))
    except BaseException:
        traceback.print_exc()
    finally:
        os._exit(0)


class _Worker:
    def __init__(self, idx, initializer, initargs, siblings=()):
        self.idx = idx
        p2c_r, p2c_w = os.pipe()
        c2p_r, c2p_w = os.pipe()
        pid = os.fork()
        if pid == 0:
            os.close(p2c_w)
            os.close(c2p_r)
            for sib in siblings:          # do not keep the older workers' pipes alive
                for fd in (sib.w, sib.r):
                    try:
                        os.close(fd)
                    except OSError:
                        pass
            _worker_main(p2c_r, c2p_w, initializer, initargs)
        os.close(p2c_r)
        os.close(c2p_w)
        self.pid, self.w, self.r = pid, p2c_w, c2p_r
        self.busy_until = None

    def call(self, func, args, kwds, fault):
        _write_msg(self.w, bytes(ForkingPickler.dumps((func, args, kwds, fault))))
        try:
            return pickle.loads(_read_msg(self.r))
        except EOFError:
            return (False, RuntimeError("SimPool: worker %d died" % self.idx))

    def close_fds(self):
        for fd in (self.w, self.r):
            try:
                os.close(fd)
            except OSError:
                pass

    def close(self):
        self.close_fds()
        try:
            os.kill(self.pid, 9)     # like Pool.terminate(): workers hold no state worth a clean exit
        except OSError:
            pass
        try:
            os.waitpid(self.pid, 0)
        except Exception:
            pass


class ApplyResult:
    def __init__(self, pool, callback=None, error_callback=None):
        self._pool = pool
        self._ready = False
        self._success = None
        self._value = None
        self._callback = callback
        self._error_callback = error_callback

    def ready(self):
        return self._ready

    def successful(self):
        if not self._ready:
            raise ValueError("{0!r} not ready".format(self))
        return self._success

    def wait(self, timeout=None):
        self._pool._run_until(lambda: self._ready)

    def get(self, timeout=None):
        self.wait(timeout)
        if not self._ready:
            raise TimeoutError
        if self._success:
            return self._value
        raise self._value

    def _finish(self, success, value):
        self._ready = True
        self._success = success
        self._value = value
        if success and self._callback:
            self._callback(value)
        if not success and self._error_callback:
            self._error_callback(value)


class MapResult(ApplyResult):
    def __init__(self, pool, nchunks, chunksize, length, callback=None, error_callback=None):
        super().__init__(pool, callback, error_callback)
        self._store = [None] * length
        self._chunksize = chunksize
        self._left = nchunks
        self._ok = True
        self._first_error = None
        if nchunks == 0:
            self._finish(True, [])

    def _set(self, i, success, result):
        self._left -= 1
        if success and self._ok:
            self._store[i * self._chunksize:(i + 1) * self._chunksize] = result
        elif not success and self._ok:
            self._ok = False
            self._first_error = result
        if self._left == 0:
            if self._ok:
                self._finish(True, self._store)
            else:
                self._finish(False, self._first_error)


class _IMap:
    def __init__(self, pool, n, ordered):
        self._pool = pool
        self._n = n
        self._ordered = ordered
        self._done = {}
        self._arrival = []
        self._next = 0

    def _set(self, i, success, result):
        self._done[i] = (success, result)
        self._arrival.append(i)

    def __iter__(self):
        return self

    def __next__(self):
        if self._next >= self._n:
            raise StopIteration
        if self._ordered:
            i = self._next
            self._pool._run_until(lambda: i in self._done)
        else:
            self._pool._run_until(lambda: len(self._arrival) > self._next)
            i = self._arrival[self._next]
        self._next += 1
        if i not in self._done:
            raise StopIteration
        ok, val = self._done[i]
        if ok:
            return val
        raise val

    next = __next__


class SimPool:
    """Drop-in for multiprocessing.Pool(processes, initializer, initargs)."""

    def __init__(self, processes=None, initializer=None, initargs=(), maxtasksperchild=None, context=None):
        if processes is None:
            processes = os.cpu_count() or 1
        if processes < 1:
            raise ValueError("Number of processes must be at least 1")
        STATS["pools"] += 1
        self._rng = Rng(CONFIG["seed"], "pool", STATS["pools"])
        self._workers = []
        for i in range(processes):
            self._workers.append(_Worker(i, initializer, initargs, tuple(self._workers)))
        self._queue = []          # FIFO of pending tasks
        self._events = []         # heap of (time, seq, worker idx, task)
        self._seq = 0
        self._now = 0.0
        self._state = "RUN"
        self._slow = set()
        self._assign_log = []
        self._complete_log = []
        self._chunk_counter = 0
        for f in CONFIG["faults"]:
            if f["kind"] == "slow_worker" and f.get("pool", STATS["pools"]) == STATS["pools"]:
                self._slow.add(f["worker"] % processes)

    # ---- context manager / lifecycle
    def __enter__(self):
        self._check_running()
        return self

    def __exit__(self, *a):
        self.terminate()

    def _check_running(self):
        if self._state != "RUN":
            raise ValueError("Pool not running")

    def close(self):
        if self._state == "RUN":
            self._state = "CLOSE"

    def join(self):
        if self._state == "RUN":
            raise ValueError("Pool is still running")
        if self._state == "CLOSE":
            self._run_until(lambda: not self._queue and not self._events)
        self._shutdown()

    def terminate(self):
        if self._state == "TERMINATE":
            return
        # whatever has not been awaited may or may not have happened: let a seeded number of events happen
        n = self._rng.randint(0, 2) if (self._queue or self._events) else 0
        for _ in range(n):
            if not self._step():
                break
        self._queue = []
        self._events = []
        self._state = "TERMINATE"
        self._shutdown()

    def _shutdown(self):
        self._record_signature()
        for w in self._workers:
            w.close_fds()
        for w in self._workers:
            w.close()
        self._workers = []

    def __del__(self):
        try:
            if self._workers:
                self._state = "TERMINATE"
                for w in self._workers:
                    w.close_fds()
                for w in self._workers:
                    w.close()
        except Exception:
            pass

    # ---- scheduling core
    def _duration(self, widx):
        r = self._rng
        d = r.uniform(1.0, 2.0)
        if r.random() < 0.06:
            d *= r.uniform(10.0, 40.0)      # heavy tail: a stalled worker
        if widx in self._slow:
            d *= 50.0
        return d

    def _fault_for(self, call_idx, item_idx):
        for f in CONFIG["faults"]:
            if f["kind"] == "worker_raises" and f["call"] == call_idx and f["item"] == item_idx:
                return f.get("when", "before")
        return None

    def _step(self):
        """Advance the simulation by one event. Returns False when nothing can happen."""
        # 1. hand queued tasks to idle workers (FIFO of tasks; which idle worker takes it is the seed's choice)
        idle = [w for w in self._workers if w.busy_until is None]
        while idle and self._queue:
            w = idle.pop(self._rng.randrange(len(idle)))
            task = self._queue.pop(0)
            start = self._now
            dur = 0.0
            results = []
            ok = True
            err = None
            for (func, args, kwds, fault, item_no) in task["items"]:
                dur += self._duration(w.idx)
                STATS["items"] += 1
                if fault:
                    STATS["faults_fired"]["worker_raises"] = STATS["faults_fired"].get("worker_raises", 0) + 1
                    if CONFIG["ctx"] is not None:
                        CONFIG["ctx"].fault("worker_raises")
                success, val = w.call(func, args, kwds, fault)
                if not success:
                    ok, err = False, val
                    break               # mapstar: the chunk aborts at its first failing item
                results.append(val)
            late = 0.0
            for f in CONFIG["faults"]:
                if f["kind"] == "late_result" and f["chunk"] == task["gchunk"]:
                    late = 1000.0
                    STATS["faults_fired"]["late_result"] = STATS["faults_fired"].get("late_result", 0) + 1
                    if CONFIG["ctx"] is not None:
                        CONFIG["ctx"].fault("late_result")
            if w.idx in self._slow:
                STATS["faults_fired"]["slow_worker"] = STATS["faults_fired"].get("slow_worker", 0) + 1
            w.busy_until = start + dur + late
            self._seq += 1
            task["outcome"] = (ok, results if ok else err)
            heapq.heappush(self._events, (w.busy_until, self._seq, w.idx, task))
            self._assign_log.append((task["gchunk"], w.idx))
        if not self._events:
            return False
        # 2. the earliest completion happens
        t, _, widx, task = heapq.heappop(self._events)
        self._now = t
        STATS["sim_time"] = STATS["sim_time"] + 0.0
        self._workers[widx].busy_until = None
        self._complete_log.append(task["gchunk"])
        ok, val = task["outcome"]
        task["deliver"](ok, val)
        return True

    def _run_until(self, cond):
        while not cond():
            if not self._step():
                break

    def _record_signature(self):
        if not self._assign_log:
            return
        ooo = sum(1 for a, b in zip(self._complete_log, self._complete_log[1:]) if b < a)
        STATS["out_of_order_completions"] += ooo
        STATS["sim_time"] += self._now
        sig = "n%d|a%s|c%s" % (len(self._workers), ",".join("%d>%d" % x for x in self._assign_log),
                                ",".join(str(c) for c in self._complete_log))
        STATS["signatures"].append(sig)
        if CONFIG["ctx"] is not None:
            CONFIG["ctx"].log("pool", sig)
        self._assign_log, self._complete_log = [], []

    # ---- public API
    def _chunks(self, func, items, chunksize, star, call_idx):
        out = []
        for ci in range(0, len(items), chunksize):
            chunk = []
            for k, it in enumerate(items[ci:ci + chunksize]):
                item_no = ci + k
                args = tuple(it) if star else (it,)
                chunk.append((func, args, {}, self._fault_for(call_idx, item_no), item_no))
            out.append(chunk)
        return out

    def _chunksize(self, n, chunksize):
        if chunksize is None:
            knob = CONFIG["chunk_knob"]
            if knob == "one":
                chunksize = 1
            elif knob == "all":
                chunksize = max(1, n)
            else:
                chunksize, extra = divmod(n, len(self._workers) * 4)
                if extra:
                    chunksize += 1
        if n == 0:
            chunksize = 0
        return chunksize

    def _map_async(self, func, iterable, star, chunksize, callback, error_callback):
        self._check_running()
        items = list(iterable)
        STATS["map_calls"] += 1
        call_idx = STATS["map_calls"]
        cs = self._chunksize(len(items), chunksize)
        chunks = self._chunks(func, items, cs, star, call_idx) if cs else []
        res = MapResult(self, len(chunks), cs, len(items), callback, error_callback)
        for i, ch in enumerate(chunks):
            self._chunk_counter += 1
            STATS["chunks"] += 1
            self._queue.append({"items": ch, "gchunk": self._chunk_counter,
                                "deliver": (lambda ok, val, i=i: res._set(i, ok, val))})
        return res

    def map(self, func, iterable, chunksize=None):
        return self._map_async(func, iterable, False, chunksize, None, None).get()

    def starmap(self, func, iterable, chunksize=None):
        return self._map_async(func, iterable, True, chunksize, None, None).get()

    def map_async(self, func, iterable, chunksize=None, callback=None, error_callback=None):
        return self._map_async(func, iterable, False, chunksize, callback, error_callback)

    def starmap_async(self, func, iterable, chunksize=None, callback=None, error_callback=None):
        return self._map_async(func, iterable, True, chunksize, callback, error_callback)

    def apply_async(self, func, args=(), kwds=None, callback=None, error_callback=None):
        self._check_running()
        STATS["map_calls"] += 1
        call_idx = STATS["map_calls"]
        res = ApplyResult(self, callback, error_callback)
        self._chunk_counter += 1
        STATS["chunks"] += 1

        def deliver(ok, val):
            res._finish(ok, val[0] if ok else val)
        self._queue.append({"items": [(func, tuple(args), dict(kwds or {}), self._fault_for(call_idx, 0), 0)],
                            "gchunk": self._chunk_counter, "deliver": deliver})
        return res

    def apply(self, func, args=(), kwds=None):
        return self.apply_async(func, args, kwds).get()

    def _imap(self, func, iterable, chunksize, ordered):
        self._check_running()
        items = list(iterable)
        STATS["map_calls"] += 1
        call_idx = STATS["map_calls"]
        it = _IMap(self, len(items), ordered)
        # imap yields item by item; with chunksize > 1 CPython still delivers per chunk and flattens: model that
        cs = max(1, chunksize or 1)
        chunks = self._chunks(func, items, cs, False, call_idx)
        for ci, ch in enumerate(chunks):
            self._chunk_counter += 1
            STATS["chunks"] += 1

            def deliver(ok, val, ci=ci, ch=ch):
                if ok:
                    for k, v in enumerate(val):
                        it._set(ci * cs + k, True, v)
                else:
                    it._set(ci * cs, False, val)
                    for k in range(1, len(ch)):
                        it._set(ci * cs + k, False, val)
            self._queue.append({"items": ch, "gchunk": self._chunk_counter, "deliver": deliver})
        return it

    def imap(self, func, iterable, chunksize=1):
        return self._imap(func, iterable, chunksize, True)

    def imap_unordered(self, func, iterable, chunksize=1):
        return self._imap(func, iterable, chunksize, False)


def install():
    """Route every way geomdl could reach a process pool to SimPool."""
    import multiprocessing
    import multiprocessing.pool
    import geomdl._utilities as u
    u.Pool = SimPool
    multiprocessing.Pool = SimPool
    multiprocessing.pool.Pool = SimPool
    try:
        import geomdl.multi as m
        if hasattr(m, "Pool"):
            m.Pool = SimPool
        import geomdl._voxelize as v
        if hasattr(v, "Pool"):
            v.Pool = SimPool
    except Exception:
        pass
