"""./check <ID> --tier quick|thorough [--replay FILE] — dispatcher.

exit 0: property held on everything explored (KNOWN-FINDING lines allowed)
exit 1: VIOLATION property=<ID> replay=<path> printed for every unlisted violation signature
exit 2: harness error (never read as a verdict)
"""
import argparse
import importlib
import json
import os
import sys
import time

from . import core


def _reexec():
    want = os.environ.get("VERIF_HASHSEED", "0")
    if os.environ.get("PYTHONHASHSEED") != want or os.environ.get("PYTHONDONTWRITEBYTECODE") != "1":
        env = dict(os.environ, PYTHONHASHSEED=want, PYTHONDONTWRITEBYTECODE="1")
        os.execve(sys.executable, [sys.executable] + sys.argv, env)


def load_findings():
    p = os.path.join(core.VERIF, "known_findings.json")
    with open(p) as f:
        return json.load(f)["findings"]


def match_known(findings, prop, sig):
    for f in findings:
        if f.get("property") != prop or f.get("status") != "known":
            continue
        fs = f.get("signature", {})
        if all(sig.get(k) == v for k, v in fs.items()):
            return f
    return None


def main(argv=None):
    _reexec()
    from . import runner, shrink
    from machines import REGISTRY

    ap = argparse.ArgumentParser()
    ap.add_argument("prop")
    ap.add_argument("--tier", default=os.environ.get("VERIF_TIER", "quick"), choices=["quick", "thorough"])
    ap.add_argument("--replay")
    ap.add_argument("--runs", type=int)
    ap.add_argument("--jobs", type=int, default=int(os.environ.get("VERIF_JOBS", "0")) or min(16, os.cpu_count() or 1))
    ap.add_argument("--seed", type=int, default=int(os.environ.get("VERIF_SEED", core.DEFAULT_SEED)))
    ap.add_argument("--no-evidence", action="store_true")
    ap.add_argument("--no-shrink", action="store_true")
    ap.add_argument("--digest-only", action="store_true", help="print the batch digest and exit (self-tests)")
    ap.add_argument("--trace", action="store_true", help="with --replay: print the event log")
    args = ap.parse_args(argv)

    prop = args.prop
    if prop not in REGISTRY:
        print("HARNESS-ERROR: no check is registered for %s (see MANIFEST.json not_applicable)" % prop)
        return 2
    machine_name = REGISTRY[prop]
    machine = importlib.import_module(machine_name)
    findings = load_findings()

    if args.replay:
        return replay(args, machine_name, machine, findings)

    budget = machine.BUDGET[prop][args.tier]
    scale = float(os.environ.get("VERIF_BUDGET_SCALE", "1"))
    nruns = args.runs if args.runs else max(16, int(budget["runs"] * scale))
    wall_cap = float(os.environ.get("VERIF_WALL_CAP_S", budget["wall_cap_s"]))
    avoid_policy = sorted({a for f in findings if f.get("property") == prop and f.get("status") == "known"
                           for a in f.get("avoid", [])})

    t0 = time.time()
    print("check %s tier=%s seed=%d runs=%d jobs=%d machine=%s repo=%s" % (
        prop, args.tier, args.seed, nruns, args.jobs, machine_name, core.REPO), flush=True)
    results, completed, capped = runner.run_batch(machine_name, prop, args.seed, args.tier, nruns, args.jobs,
                                                  wall_cap, avoid_policy)
    wall_batch = time.time() - t0

    # ---- aggregate
    import hashlib
    bh = hashlib.sha256()
    agg = {"probes": {}, "faults": {}, "ops_executed": 0, "ops_skipped": 0, "sim_time": 0.0,
           "preconditions": 0, "fault_free_runs": 0, "fault_runs": 0, "extra": {}}
    nontrivial_digests = set()
    state_set = set()
    samples = []
    harness = []
    viols = {}
    known_hits = {}
    for run, res, opdig, script in results:
        bh.update(("%d:%s;" % (run, res["digest"])).encode())
        for k, v in res["probes"].items():
            agg["probes"][k] = agg["probes"].get(k, 0) + v
        for k, v in res["faults"].items():
            agg["faults"][k] = agg["faults"].get(k, 0) + v
        for k, v in res.get("extra", {}).items():
            if isinstance(v, (int, float)):
                agg["extra"][k] = agg["extra"].get(k, 0) + v
        agg["ops_executed"] += res["ops_executed"]
        agg["ops_skipped"] += res["ops_skipped"]
        agg["sim_time"] += res["sim_time"]
        if res["precondition"]:
            agg["preconditions"] += 1
        if res["faults"]:
            agg["fault_runs"] += 1
        else:
            agg["fault_free_runs"] += 1
        if res["nontrivial"]:
            nontrivial_digests.add(opdig)
        for s in res["states"]:
            state_set.add(s)
        if res["harness_error"]:
            harness.append((run, res["harness_error"], script))
        v = res["violation"]
        if v is not None:
            kf = match_known(findings, prop, v["sig"])
            if kf is not None:
                known_hits.setdefault(kf["id"], [kf, 0, run, v])
                known_hits[kf["id"]][1] += 1
            else:
                key = json.dumps(v["sig"], sort_keys=True)
                viols.setdefault(key, []).append((run, v, script))
        elif script is not None and not res["harness_error"] and len(samples) < 4:
            view = getattr(machine, "sample_view", None)
            samples.append(view(script, res) if view else {"run": run, "knobs": script.get("knobs"),
                                                            "ops": script.get("ops", [])[:12]})
    batch_digest = bh.hexdigest()[:32]
    if args.digest_only:
        print("BATCH-DIGEST %s runs=%d" % (batch_digest, completed))
        return 0

    rc = 0
    for kid, (kf, n, run, v) in sorted(known_hits.items()):
        print("KNOWN-FINDING: property=%s %s (id=%s, %d runs, first run %d)" % (prop, kf["description"], kid, n, run))

    # ---- report, minimise, write replay files
    replays = []
    if viols:
        rc = 1
        zy = runner.Zygotes(machine_name)
        os.makedirs(os.path.join(core.VERIF, "replays"), exist_ok=True)
        try:
            for key, lst in list(viols.items())[:6]:
                run, v, script = lst[0]
                if script is None:
                    script = runner.make_script(machine_name, prop, args.seed, run, args.tier,
                                                avoid_policy if run % 2 == 1 else [])
                orig_n = len(script.get("ops", []))
                mini, tried = script, 0
                if not args.no_shrink:
                    mini, tried = shrink.minimise(zy.execute, machine, script, v["sig"],
                                                  budget_s=float(os.environ.get("VERIF_SHRINK_S", "45")))
                final = zy.execute(mini)
                if final.get("violation") is None:
                    mini, final = script, zy.execute(script)
                path = os.path.join(core.VERIF, "replays", "%s-%d-%d.json" % (prop, args.seed, run))
                with open(path, "w") as f:
                    json.dump({"property": prop, "seed": args.seed, "run": run, "tier": args.tier,
                               "script": mini, "violation": final.get("violation"), "digest": final.get("digest"),
                               "original_ops": orig_n, "minimised_ops": len(mini.get("ops", [])),
                               "shrink_candidates": tried, "runs_with_this_signature": len(lst)}, f, indent=1)
                fv = final.get("violation") or v
                print("VIOLATION property=%s replay=%s" % (prop, path))
                print("  class=%s step=%s runs=%d ops %d->%d sig=%s" % (fv["class"], fv.get("step"), len(lst), orig_n,
                                                                      len(mini.get("ops", [])), json.dumps(fv["sig"], sort_keys=True)))
                print("  " + fv["msg"].replace("\n", "\n  ")[:1500])
                replays.append(path)
        finally:
            zy.close()
    if harness:
        for run, err, _ in harness[:3]:
            print("HARNESS-ERROR run=%d: %s" % (run, err.strip()[-1500:]))
        print("HARNESS-ERROR: %d runs failed inside the harness" % len(harness))
        if rc == 0:
            rc = 2
    if completed < nruns:
        print("note: wall cap reached, %d of %d planned runs completed" % (completed, nruns))

    wall = time.time() - t0
    if not args.no_evidence:
        write_evidence(prop, args, machine, results, completed, nruns, capped, batch_digest, agg,
                       nontrivial_digests, state_set, samples, viols, known_hits, harness, wall, wall_batch)
    print("%s %s: runs=%d nontrivial_distinct=%d violations=%d known=%d harness_errors=%d wall=%.1fs digest=%s" % (
        prop, {0: "OK", 1: "VIOLATION", 2: "HARNESS-ERROR"}[rc], completed, len(nontrivial_digests),
        sum(len(v) for v in viols.values()), sum(h[1] for h in known_hits.values()), len(harness), wall, batch_digest))
    return rc


def write_evidence(prop, args, machine, results, completed, nruns, capped, batch_digest, agg, nontrivial_digests,
                   state_set, samples, viols, known_hits, harness, wall, wall_batch):
    cov = {
        "evaluations": completed,
        "distinct_nontrivial": len(nontrivial_digests),
        "rule": machine.RULE[prop],
        "samples": samples,
        "planned_runs": nruns,
        "wall_cap_reached": capped,
        "batch_digest": batch_digest,
        "runs_per_hour": int(completed / max(wall_batch, 1e-6) * 3600),
        "operations_executed": agg["ops_executed"],
        "operations_skipped_inapplicable": agg["ops_skipped"],
        "simulated_time_covered": (agg["sim_time"] if agg["sim_time"] else
                                   "n/a - this machine has no clock; the only simulated time in geomdl's world is SimPool item durations"),
        "faults_fired": agg["faults"],
        "fault_free_runs": agg["fault_free_runs"],
        "fault_injecting_runs": agg["fault_runs"],
        "reach_probes": agg["probes"],
        "distinct_abstract_states": len([x for x in state_set if not str(x).startswith("sched:")]),
        "distinct_pool_schedule_signatures": len([x for x in state_set if str(x).startswith("sched:")]),
        "state_measure": "abstract state = machine-specific tuple (object kind, rational flag, set of warm caches / operation class); "
                         "pool schedule signature = (workers, chunk->worker assignment sequence, completion order) of every SimPool instance",

        "runs_outside_precondition": agg["preconditions"],
        "known_findings_matched": {k: v[1] for k, v in known_hits.items()},
        "unlisted_violation_signatures": len(viols),
        "harness_errors": len(harness),
        "components": machine.COMPONENTS,
        "counters": agg["extra"],
        "jobs": args.jobs,
    }
    ev = {
        "property_id": prop, "tier": args.tier, "seed": args.seed, "level": "exploration",
        "coverage": cov,
        "assumptions": machine.ASSUMPTIONS[prop] if isinstance(machine.ASSUMPTIONS, dict) else machine.ASSUMPTIONS,
        "wall_s": round(wall, 2),
        "violations": sum(len(v) for v in viols.values()),
    }
    d = os.path.join(core.VERIF, "evidence")
    os.makedirs(d, exist_ok=True)
    tmp = os.path.join(d, ".%s.json.tmp" % prop)
    with open(tmp, "w") as f:
        json.dump(ev, f, indent=1, sort_keys=True)
    os.replace(tmp, os.path.join(d, "%s.json" % prop))


def replay(args, machine_name, machine, findings):
    from . import runner
    with open(args.replay) as f:
        rp = json.load(f)
    script = rp["script"]
    if args.trace:
        script = dict(script, trace=True)
    zy = runner.Zygotes(machine_name)
    try:
        res = zy.execute(script)
    finally:
        zy.close()
    if args.trace:
        for line in res.get("trace", []):
            print("  | " + line)
    v = res.get("violation")
    exp = rp.get("violation")
    if res.get("harness_error"):
        print("HARNESS-ERROR: " + res["harness_error"])
        return 2
    if v is None:
        print("replay: no violation (recorded: %s)" % (exp["class"] if exp else None))
        return 0
    same_sig = exp is not None and json.dumps(exp["sig"], sort_keys=True) == json.dumps(v["sig"], sort_keys=True)
    same_dig = (not args.trace) and res.get("digest") == rp.get("digest")
    print("VIOLATION property=%s replay=%s" % (args.prop, os.path.abspath(args.replay)))
    print("  class=%s step=%s same_signature=%s same_event_log_digest=%s" % (v["class"], v.get("step"), same_sig,
                                                                        same_dig if not args.trace else "n/a (trace on)"))
    print("  " + v["msg"].replace("\n", "\n  ")[:2000])
    return 1


if __name__ == "__main__":
    sys.exit(main())
