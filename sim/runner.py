"""Batch runner: zygotes (one per GEOMDL_CACHE_SIZE value), one forked child per simulated run,
seeded batches over up to 16 runner processes, replay, minimisation, known findings, evidence.

Process tree:  main -> runner workers (ProcessPoolExecutor, fork) -> zygote per cache size
               -> run child (fresh fork per run; geomdl already imported, memos empty)
               -> SimPool workers (forked by the run child, lock-step).
"""
import ctypes
import importlib
import json
import os
import select
import signal
import struct
import sys
import time
import traceback
import faulthandler
from concurrent.futures import ProcessPoolExecutor
import multiprocessing

from . import core
from .core import Ctx, Violation, Precondition, SimCrash, Rng, h64

RUN_TIMEOUT_S = int(os.environ.get("VERIF_RUN_TIMEOUT_S", "300"))     # hard: the zygote kills the run child
SOFT_TIMEOUT_S = int(os.environ.get("VERIF_SOFT_TIMEOUT_S", "120"))   # soft: interval timer inside the run child
BLOCK = 32


class RunTimeout(BaseException):
    pass



# ---------------------------------------------------------------------------------------------
# low-level framing

def _send(fd, obj):
    data = json.dumps(obj).encode()
    os.write(fd, struct.pack("<I", len(data)))
    off = 0
    while off < len(data):
        off += os.write(fd, data[off:off + 65536])


def _recv_exact(fd, n):
    buf = b""
    while len(buf) < n:
        chunk = os.read(fd, n - len(buf))
        if not chunk:
            raise EOFError
        buf += chunk
    return buf


def _recv(fd):
    (n,) = struct.unpack("<I", _recv_exact(fd, 4))
    return json.loads(_recv_exact(fd, n).decode())


def _pdeathsig():
    try:
        ctypes.CDLL("libc.so.6", use_errno=True).prctl(1, signal.SIGKILL)
    except Exception:
        pass


# ---------------------------------------------------------------------------------------------
# the run child

def execute_in_this_process(machine, script):
    """Execute one script in the current (fresh) process and return the result dict."""
    import random
    ctx = Ctx(script)
    res = {"violation": None, "precondition": None, "harness_error": None}
    random.seed(h64(script.get("seed", 0), script.get("run", 0), "stdlib-random"))

    def _soft_timeout(signum, frame):
        raise RunTimeout("run exceeded %d s (library call that does not return, or an overloaded machine)" % SOFT_TIMEOUT_S)
    try:
        signal.signal(signal.SIGALRM, _soft_timeout)
        signal.setitimer(signal.ITIMER_REAL, SOFT_TIMEOUT_S)
    except Exception:
        pass
    try:
        try:
            machine.run(script, ctx)
        finally:
            try:
                signal.setitimer(signal.ITIMER_REAL, 0)
            except Exception:
                pass
    except RunTimeout as t:
        res["harness_error"] = "TIMEOUT: %s at step %s" % (t, ctx.step)
    except Violation as v:
        res["violation"] = {"class": v.cls, "sig": v.sig, "msg": v.msg[:2000], "step": ctx.step}
    except Precondition as p:
        res["precondition"] = str(p)[:500]
    except SimCrash as c:
        res["harness_error"] = "SimCrash escaped the machine: %r" % (c,)
    except BaseException:
        res["harness_error"] = traceback.format_exc()[-4000:]
    res.update(digest=ctx.digest(), nlog=ctx.nlog, probes=ctx.probes, faults=ctx.faults,
               nontrivial=bool(ctx.nontrivial), states=ctx.states[:64], sim_time=ctx.sim_time,
               ops_executed=ctx.ops_executed, ops_skipped=ctx.ops_skipped, extra=ctx.extra)
    if ctx.trace is not None:
        res["trace"] = ctx.trace
    return res


def _zygote_main(machine_name, cache_size, req_r, resp_w):
    _pdeathsig()
    signal.signal(signal.SIGINT, signal.SIG_IGN)
    if cache_size is None:
        os.environ.pop("GEOMDL_CACHE_SIZE", None)
    else:
        os.environ["GEOMDL_CACHE_SIZE"] = str(cache_size)
    core.setup_import_path()
    import_error = None
    machine = None
    try:
        machine = importlib.import_module(machine_name)
        machine.prepare()
    except BaseException:
        import_error = traceback.format_exc()[-3000:]
    while True:
        try:
            script = _recv(req_r)
        except EOFError:
            os._exit(0)
        if import_error is not None:
            last = import_error.strip().splitlines()[-1]
            res = {"violation": {"class": "import_failed", "step": -1, "msg": import_error,
                                 "sig": {"class": "import_failed", "cache_size": cache_size,
                                         "error": last.split(":")[0]}},
                   "precondition": None, "harness_error": None, "digest": "import_failed", "nlog": 0,
                   "probes": {}, "faults": {}, "nontrivial": False, "states": [], "sim_time": 0.0,
                   "ops_executed": 0, "ops_skipped": 0, "extra": {}}
            _send(resp_w, res)
            continue
        r, w = os.pipe()
        pid = os.fork()
        if pid == 0:
            # ---- run child
            try:
                os.close(r)
                os.close(req_r)
                os.setsid()
                _pdeathsig()
                dn = os.open(os.devnull, os.O_WRONLY)
                os.dup2(dn, 1)  # the library prints on some error paths; stdout belongs to the verdict lines
                os.close(dn)
                faulthandler.enable()
                faulthandler.dump_traceback_later(RUN_TIMEOUT_S - 2 if RUN_TIMEOUT_S > 4 else 2, exit=False)
                res = execute_in_this_process(machine, script)
                faulthandler.cancel_dump_traceback_later()
                _send(w, res)
            except BaseException:
                try:
                    _send(w, {"harness_error": "run child failed: " + traceback.format_exc()[-3000:]})
                except BaseException:
                    pass
            finally:
                os._exit(0)
        os.close(w)
        res = None
        deadline = time.monotonic() + RUN_TIMEOUT_S
        try:
            rl, _, _ = select.select([r], [], [], max(0.0, deadline - time.monotonic()))
            if rl:
                res = _recv(r)
        except EOFError:
            res = None
        except BaseException:
            res = {"harness_error": "zygote read failed: " + traceback.format_exc()[-2000:]}
        os.close(r)
        if res is None:
            try:
                os.killpg(pid, signal.SIGKILL)
            except Exception:
                pass
        try:
            _, status = os.waitpid(pid, 0)
        except ChildProcessError:
            status = 0
        try:
            os.killpg(pid, signal.SIGKILL)  # reap stray SimPool workers of that run
        except Exception:
            pass
        if res is None:
            res = {"harness_error": "run child died or timed out (status %r, timeout %ds)" % (status, RUN_TIMEOUT_S)}
        for k, v in (("violation", None), ("precondition", None), ("harness_error", None), ("digest", ""),
                     ("nlog", 0), ("probes", {}), ("faults", {}), ("nontrivial", False), ("states", []),
                     ("sim_time", 0.0), ("ops_executed", 0), ("ops_skipped", 0), ("extra", {})):
            res.setdefault(k, v)
        _send(resp_w, res)


class Zygotes:
    """Lazily started zygotes of one machine, keyed by cache-size knob."""

    def __init__(self, machine_name):
        self.machine_name = machine_name
        self.z = {}

    def _start(self, cache_size):
        req_r, req_w = os.pipe()
        resp_r, resp_w = os.pipe()
        pid = os.fork()
        if pid == 0:
            try:
                os.close(req_w)
                os.close(resp_r)
                for (_, w_, r_) in self.z.values():
                    for fd in (w_, r_):
                        try:
                            os.close(fd)
                        except OSError:
                            pass
                _zygote_main(self.machine_name, cache_size, req_r, resp_w)
            finally:
                os._exit(0)
        os.close(req_r)
        os.close(resp_w)
        self.z[cache_size] = (pid, req_w, resp_r)

    def execute(self, script):
        cs = script.get("knobs", {}).get("cache_size")
        if cs not in self.z:
            self._start(cs)
        pid, req_w, resp_r = self.z[cs]
        try:
            _send(req_w, script)
            return _recv(resp_r)
        except (EOFError, OSError) as e:
            self.z.pop(cs, None)
            return {"violation": None, "precondition": None,
                    "harness_error": "zygote for cache_size=%r died: %r" % (cs, e), "digest": "",
                    "nlog": 0, "probes": {}, "faults": {}, "nontrivial": False, "states": [],
                    "sim_time": 0.0, "ops_executed": 0, "ops_skipped": 0, "extra": {}}

    def close(self):
        for pid, w, r in self.z.values():
            for fd in (w, r):
                try:
                    os.close(fd)
                except OSError:
                    pass
        for pid, _, _ in self.z.values():
            try:
                os.waitpid(pid, 0)
            except Exception:
                pass
        self.z = {}


# ---------------------------------------------------------------------------------------------
# script generation (pure function of seed, property, run index, tier, avoid list)

def make_script(machine_name, prop, seed, run, tier, avoid):
    machine = importlib.import_module(machine_name)
    run_seed = h64(seed, prop, run)

    def stream(name):
        return Rng(run_seed, name)

    script = machine.gen(prop, stream, tier, avoid)
    script.update(property=prop, machine=machine_name, seed=seed, run=run, tier=tier)
    script.setdefault("knobs", {})
    return script


_W = {}


def _worker_block(args):
    machine_name, prop, seed, tier, start, stop, avoid_policy = args
    zy = _W.get(machine_name)
    if zy is None:
        zy = _W[machine_name] = Zygotes(machine_name)
    out = []
    timeouts = 0
    for run in range(start, stop):
        avoid = avoid_policy if (run % 2 == 1) else []
        script = make_script(machine_name, prop, seed, run, tier, avoid)
        if timeouts >= 2:
            # do not let a hanging library keep the batch busy for hours: the verdict is already 'harness error'
            res = {"violation": None, "precondition": None, "harness_error": "skipped: two earlier runs of this block timed out",
                   "digest": "", "nlog": 0, "probes": {}, "faults": {}, "nontrivial": False, "states": [], "sim_time": 0.0,
                   "ops_executed": 0, "ops_skipped": 0, "extra": {}}
        else:
            res = zy.execute(script)
        if res["harness_error"] and ("TIMEOUT" in res["harness_error"] or "timed out" in res["harness_error"]):
            timeouts += 1
        keep = res["violation"] is not None or res["harness_error"] is not None or run % 97 == 0
        out.append((run, res, core.digest(script.get("ops", [])), script if keep else None))
    return out


def _worker_init():
    _pdeathsig()
    signal.signal(signal.SIGINT, signal.SIG_IGN)


def run_batch(machine_name, prop, seed, tier, nruns, jobs, wall_cap_s, avoid_policy, progress=None):
    """Returns (results sorted by run index, completed count, wall cap hit)."""
    t0 = time.monotonic()
    blocks = [(machine_name, prop, seed, tier, s, min(nruns, s + BLOCK), avoid_policy)
              for s in range(0, nruns, BLOCK)]
    results = []
    capped = False
    ctxmp = multiprocessing.get_context("fork")
    with ProcessPoolExecutor(max_workers=jobs, mp_context=ctxmp, initializer=_worker_init) as ex:
        pending = []
        it = iter(blocks)
        # keep 2*jobs blocks in flight; stop submitting when the wall cap is reached
        for _ in range(2 * jobs):
            b = next(it, None)
            if b is None:
                break
            pending.append(ex.submit(_worker_block, b))
        while pending:
            fut = pending.pop(0)
            results.extend(fut.result(timeout=RUN_TIMEOUT_S * BLOCK + 60))
            if time.monotonic() - t0 > wall_cap_s:
                capped = True
            if not capped:
                b = next(it, None)
                if b is not None:
                    pending.append(ex.submit(_worker_block, b))
            if progress:
                progress(len(results))
    results.sort(key=lambda r: r[0])
    return results, len(results), capped
