"""Shape specs (pure data, generated without geomdl) and their realisation as geomdl objects.

Numeric data comes from small dyadic grids (DESIGN §2.5): knots k/64, coordinates k/8 in [-16,16],
weights k/4 in [1/2,4] - all exact binary floats, all gaps far above geomdl's internal tolerances.
"""
import copy

KINDS = ("curve", "surface", "volume")
DIRS = {"curve": 1, "surface": 2, "volume": 3}
SUFFIX = ("u", "v", "w")


# ---------------------------------------------------------------------------------------------
# generation

def gen_knots(rng, degree, n_ctrl, clamped=True, den=64):
    """Non-decreasing knot vector of length n_ctrl+degree+1 on [0,1]; interior knots k/den with multiplicity <= degree."""
    n_int = n_ctrl - degree - 1
    if n_int >= den - 1:
        den = 4096          # long knot vectors need a finer grid
    interior = []
    if n_int > 0:
        # choose distinct values and multiplicities summing to n_int
        mults = []
        left = n_int
        while left > 0:
            m = min(left, rng.choice([1, 1, 1, 2, 3][:max(1, min(5, degree + 2))]))
            m = max(1, min(m, degree))
            mults.append(m)
            left -= m
        vals = sorted(rng.sample(range(1, den), len(mults)))
        for v, m in zip(vals, mults):
            interior += [v / float(den)] * m
    if clamped:
        return [0.0] * (degree + 1) + interior + [1.0] * (degree + 1)
    # unclamped: strictly increasing end knots outside (0,1) scaled back into [0,1]
    lead = [(-(degree - i)) / float(den) for i in range(degree)] + [0.0]
    tail = [1.0] + [1.0 + (i + 1) / float(den) for i in range(degree)]
    kv = lead + interior + tail
    lo, hi = kv[0], kv[-1]
    return [(k - lo) / (hi - lo) for k in kv]


def affine_knots(kv, a, L):
    return [a + L * k for k in kv]


def gen_points(rng, n, dim, den=8, lo=-16, hi=16):
    return [[rng.dyadic(lo, hi, den) for _ in range(dim)] for _ in range(n)]


def gen_weights(rng, n, unit_chance=0.15):
    """Positive dyadic weights. Profiles: all one; all <= 1 (e.g. exact conic arcs); all >= 1; mixed."""
    x = rng.random()
    if x < unit_chance:
        return [1.0] * n
    if x < unit_chance + 0.12:
        w = [rng.choice([0.5, 0.75, 1.0, 1.0]) for _ in range(n)]
        if all(v == 1.0 for v in w):
            w[rng.randrange(n)] = 0.75
        return w
    if x < unit_chance + 0.24:
        return [rng.randint(4, 16) / 4.0 for _ in range(n)]
    return [rng.randint(2, 16) / 4.0 for _ in range(n)]


def gen_shape(rng, kind=None, rational=None, max_size=6, max_degree=3, dim=None, clamped=True,
              sizes=None, degrees=None):
    kind = kind or rng.weighted([("curve", 4), ("surface", 4), ("volume", 2)])
    nd = DIRS[kind]
    if rational is None:
        rational = rng.chance(0.5)
    if dim is None:
        dim = 3 if kind != "curve" else rng.choice([2, 3])
    if kind == "volume":
        max_size = min(max_size, 4)
        max_degree = min(max_degree, 2)
    if degrees is not None:
        max_size = max(max_size, max(degrees) + 1)
    if degrees is None:
        degrees = [rng.randint(1, max_degree) for _ in range(nd)]
    if sizes is None:
        sizes = []
        for d in range(nd):
            for _ in range(20):
                s = rng.randint(degrees[d] + 1, max(degrees[d] + 1, max_size))
                if s not in sizes:
                    break
            sizes.append(s)
    knots = [gen_knots(rng, degrees[d], sizes[d], clamped) for d in range(nd)]
    n = 1
    for s in sizes:
        n *= s
    spec = {"kind": kind, "rational": bool(rational), "dim": dim, "degrees": degrees, "sizes": sizes,
            "knots": knots, "P": gen_points(rng, n, dim)}
    if rational:
        spec["W"] = gen_weights(rng, n)
    return spec


def spec_ctrlptsw(spec):
    """Homogeneous points (x*w,...,w) for rational specs, plain points otherwise."""
    if not spec["rational"]:
        return [list(p) for p in spec["P"]]
    return [[c * w for c in p] + [w] for p, w in zip(spec["P"], spec["W"])]


# ---------------------------------------------------------------------------------------------
# realisation

class G:
    """Lazily imported geomdl modules (always the working tree under test)."""
    loaded = False

    @classmethod
    def load(cls):
        if cls.loaded:
            return cls
        from geomdl import BSpline, NURBS, operations, helpers, utilities, knotvector, evaluators, multi, \
            tessellate, compatibility, convert, linalg, exchange, abstract, voxelize
        cls.BSpline, cls.NURBS, cls.operations, cls.helpers = BSpline, NURBS, operations, helpers
        cls.utilities, cls.knotvector, cls.evaluators, cls.multi = utilities, knotvector, evaluators, multi
        cls.tessellate, cls.compatibility, cls.convert, cls.linalg = tessellate, compatibility, convert, linalg
        cls.exchange, cls.abstract, cls.voxelize = exchange, abstract, voxelize
        cls.loaded = True
        return cls


CLASSNAME = {"curve": "Curve", "surface": "Surface", "volume": "Volume"}


def new_object(kind, rational, **kwargs):
    g = G.load()
    mod = g.NURBS if rational else g.BSpline
    return getattr(mod, CLASSNAME[kind])(**kwargs)


def build(spec, **kwargs):
    """Build a geomdl object from a spec in the canonical order degree -> control points -> knot vectors."""
    obj = new_object(spec["kind"], spec["rational"], **kwargs)
    return define(obj, spec["degrees"], spec["sizes"], spec_ctrlptsw(spec), spec["knots"])


def define(obj, degrees, sizes, ctrlptsw, knots):
    nd = len(degrees)
    if nd == 1:
        obj.degree = degrees[0]
        obj.set_ctrlpts(copy.deepcopy(ctrlptsw))
        obj.knotvector = list(knots[0])
    else:
        for d in range(nd):
            setattr(obj, "degree_" + SUFFIX[d], degrees[d])
        obj.set_ctrlpts(copy.deepcopy(ctrlptsw), *sizes)
        for d in range(nd):
            setattr(obj, "knotvector_" + SUFFIX[d], list(knots[d]))
    return obj


def define_shared(obj, degrees, sizes, ctrlptsw, knots):
    """Like define(), but hands the caller's knot vector list objects to the setters (no defensive copy), the way a user who
    builds several patches from one knot vector variable does."""
    nd = len(degrees)
    if nd == 1:
        obj.degree = degrees[0]
        obj.set_ctrlpts(copy.deepcopy(ctrlptsw))
        obj.knotvector = knots[0]
    else:
        for d in range(nd):
            setattr(obj, "degree_" + SUFFIX[d], degrees[d])
        obj.set_ctrlpts(copy.deepcopy(ctrlptsw), *sizes)
        for d in range(nd):
            setattr(obj, "knotvector_" + SUFFIX[d], knots[d])
    return obj


def kind_of(obj):
    return {1: "curve", 2: "surface", 3: "volume"}[obj.pdimension]


def definition(obj):
    """The public primary definition of an object, read through its public getters only."""
    nd = obj.pdimension
    if nd == 1:
        degrees = [obj.degree]
        knots = [list(obj.knotvector)]
        sizes = [obj.ctrlpts_size]
    else:
        degrees = [getattr(obj, "degree_" + SUFFIX[d]) for d in range(nd)]
        knots = [list(getattr(obj, "knotvector_" + SUFFIX[d])) for d in range(nd)]
        sizes = [getattr(obj, "ctrlpts_size_" + SUFFIX[d]) for d in range(nd)]
    pts = obj.ctrlptsw if obj.rational else obj.ctrlpts
    return {"kind": kind_of(obj), "rational": bool(obj.rational), "degrees": degrees, "knots": knots,
            "sizes": sizes, "ctrlptsw": [list(p) for p in pts]}


def deltas(obj):
    nd = obj.pdimension
    if nd == 1:
        return [obj.delta]
    return list(obj.delta)


def twin(obj, **kwargs):
    """Freshly built object with the same public definition (R6)."""
    d = definition(obj)
    t = new_object(d["kind"], d["rational"], **kwargs)
    define(t, d["degrees"], d["sizes"], d["ctrlptsw"], d["knots"])
    dl = deltas(obj)
    if obj.pdimension == 1:
        t.delta = dl[0]
    else:
        t.delta = tuple(dl)
    return t


def model_of(obj, num=float):
    from . import refmodel
    d = definition(obj)
    return refmodel.Spline(d["degrees"], d["knots"], d["sizes"], d["ctrlptsw"], d["rational"], num)


def model_of_spec(spec, num=float):
    from . import refmodel
    return refmodel.Spline(spec["degrees"], spec["knots"], spec["sizes"], spec_ctrlptsw(spec), spec["rational"], num)
